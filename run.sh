#!/bin/bash
# run.sh <ID> quick|thorough      run the check of property <ID> (exit 0 held / 1 violation / 2 harness error)
# run.sh replay <file>            replay a recorded violation in a fresh process
# Always rebuilds the harness (and with it fastrace from /repo's working tree, hooks enabled).
set -u
export CARGO_NET_OFFLINE=true
export VERIF_DIR=/verif
cd /verif/dst || exit 2
if ! cargo build --release --offline >/verif/target-build.log 2>&1; then
  # first build creates /verif/target; the log lives next to it
  cat /verif/target-build.log >&2
  echo "HARNESS ERROR: build failed" >&2
  exit 2
fi
cd /verif
BIN=/verif/target/release/dst
case "${1:-}" in
  replay)
    exec "$BIN" replay "$2"
    ;;
  C[0-9][0-9])
    id="$1"; tier="${2:-${VERIF_TIER:-quick}}"
    shift; shift || true
    if [ "$id" = "C16" ]; then
      # part (a): the same generator against fastrace built WITHOUT the enable feature
      if ! (cd /verif/dst-disabled && cargo build --release --offline >/verif/target-build-disabled.log 2>&1); then
        cat /verif/target-build-disabled.log >&2; echo "HARNESS ERROR: build of the enable-less harness failed" >&2; exit 2
      fi
      n=4000; [ "$tier" = "thorough" ] && n=80000
      rm -f /verif/target-disabled/c16-disabled.json
      /verif/target-disabled/release/dst-disabled "$n" "$(( ${VERIF_SEED:-1} * 1000003 ))" /verif/target-disabled/c16-disabled.json >/dev/null
    fi
    exec "$BIN" drive --prop "$id" --tier "$tier" "$@"
    ;;
  *)
    echo "usage: run.sh <ID> quick|thorough | replay <file>" >&2
    exit 2
    ;;
esac
