#!/bin/bash
# run.sh <ID> quick|thorough      run the check of property <ID> (exit 0 held / 1 violation / 2 harness error)
# run.sh replay <file>            replay a recorded violation in a fresh process
# run.sh determinism [N]          N seeds of every profile in two processes, event-log hashes compared
# Always rebuilds the harness (and with it fastrace from /repo's working tree, hooks enabled).
set -u
export CARGO_NET_OFFLINE=true
# everything is relative to this script (a snapshot of /verif made by `vp run` works the same way)
VERIF_DIR="$(cd "$(dirname "$0")" && pwd)"
export VERIF_DIR
cd "$VERIF_DIR/dst" || exit 2
if ! CARGO_TARGET_DIR="$VERIF_DIR/target" cargo build --release --offline >"$VERIF_DIR/target-build.log" 2>&1; then
  cat "$VERIF_DIR/target-build.log" >&2
  echo "HARNESS ERROR: build failed" >&2
  exit 2
fi
# the same harness once more, with fastrace's own debug assertions and overflow checks compiled in:
# every fourth worker process of a check runs this build (see DESIGN.md B.9)
if ! CARGO_TARGET_DIR="$VERIF_DIR/target-checked" cargo build --release --offline \
     --config 'profile.release.package.fastrace.debug-assertions=true' \
     --config 'profile.release.package.fastrace.overflow-checks=true' \
     --config 'profile.release.package.fastrace-futures.debug-assertions=true' \
     --config 'profile.release.package.fastrace-futures.overflow-checks=true' >"$VERIF_DIR/target-build-checked.log" 2>&1; then
  cat "$VERIF_DIR/target-build-checked.log" >&2
  echo "HARNESS ERROR: build (checked) failed" >&2
  exit 2
fi
cd "$VERIF_DIR"
BIN="$VERIF_DIR/target/release/dst"
case "${1:-}" in
  replay)
    exec "$BIN" replay "$2"
    ;;
  determinism)
    # every profile, N seeds, two processes (one pinned to a core, one free): event-log hashes equal?
    n="${2:-2000}"; bad=0
    for p in C01 C02 C03 C04 C05 C06 C07 C08 C09 C10 C11 C13 C14 C15 C16 C17 C18; do
      "$BIN" hashes --prop $p --from 0 --count "$n" > "$VERIF_DIR/target/det-a.txt" &
      taskset -c 5 "$BIN" hashes --prop $p --from 0 --count "$n" > "$VERIF_DIR/target/det-b.txt"
      wait
      if cmp -s "$VERIF_DIR/target/det-a.txt" "$VERIF_DIR/target/det-b.txt"; then
        echo "$p: $(wc -l < "$VERIF_DIR/target/det-a.txt") seeds, identical event-log hashes in both processes"
      else
        echo "$p: NONDETERMINISM"; diff "$VERIF_DIR/target/det-a.txt" "$VERIF_DIR/target/det-b.txt" | head -4; bad=1
      fi
    done
    [ $bad = 0 ] && exit 0 || exit 2
    ;;
  C[0-9][0-9])
    id="$1"; tier="${2:-${VERIF_TIER:-quick}}"
    shift; shift || true
    if [ "$id" = "C16" ]; then
      # part (a): the same generator against fastrace built WITHOUT the enable feature
      if ! (cd "$VERIF_DIR/dst-disabled" && CARGO_TARGET_DIR="$VERIF_DIR/target-disabled" cargo build --release --offline >"$VERIF_DIR/target-build-disabled.log" 2>&1); then
        cat "$VERIF_DIR/target-build-disabled.log" >&2; echo "HARNESS ERROR: build of the enable-less harness failed" >&2; exit 2
      fi
      n=4000; [ "$tier" = "thorough" ] && n=80000
      rm -f "$VERIF_DIR/target-disabled/c16-disabled.json"
      "$VERIF_DIR/target-disabled/release/dst-disabled" "$n" "$(( ${VERIF_SEED:-1} * 1000003 ))" "$VERIF_DIR/target-disabled/c16-disabled.json" >/dev/null
    fi
    # warn (never fail) when the tree reads a clock / sleeps / spawns / draws randomness outside the seams
    python3 "$VERIF_DIR/tools/seam_audit.py" || true
    exec "$BIN" drive --prop "$id" --tier "$tier" "$@"
    ;;
  *)
    echo "usage: run.sh <ID> quick|thorough | replay <file>" >&2
    exit 2
    ;;
esac
