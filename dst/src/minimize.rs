//! Minimisation: shrink the program, the fault plan and the schedule while the same violation
//! class (clause + signature) persists. Budget-capped; the result always replays.

use crate::driver::eval_case;
use crate::exec::History;
use crate::gen::sanitize;
use crate::oracle::Violation;
use crate::prog::*;
use crate::sim::{mix, NO_DECISION};

struct Ctx<'a> {
    target: &'a Violation,
    runs: usize,
    budget: usize,
}

fn same<'a>(ctx: &Ctx, vs: &'a [Violation]) -> Option<&'a Violation> {
    vs.iter().find(|v| v.clause == ctx.target.clause && v.sig == ctx.target.sig)
}

/// try a candidate: with its explicit schedule if it has one, else under a few schedule seeds
fn try_case(ctx: &mut Ctx, cand: &Case, reseeds: usize) -> Option<(Case, History, Violation)> {
    let n = if cand.sched.explicit.is_some() { 1 } else { reseeds.max(1) };
    for k in 0..n {
        if ctx.runs >= ctx.budget {
            return None;
        }
        ctx.runs += 1;
        let mut c = cand.clone();
        if k > 0 {
            c.sched.seed = mix(cand.sched.seed ^ (k as u64) << 20);
        }
        let (h, v) = eval_case(&c);
        if h.out.hard.is_some() {
            // a condemned run: the process can not continue; never happens for candidates of a
            // non-hard violation in practice, but be safe
            eprintln!("HARNESS: minimisation candidate condemned the process");
            std::process::exit(3);
        }
        if let Some(x) = same(ctx, &v.violations) {
            let x = x.clone();
            return Some((c, h, x));
        }
    }
    None
}

fn removable(op: &Op) -> bool {
    !matches!(op, Op::ThreadEnd | Op::SetReporter { .. })
}

pub fn minimise(case: &Case, hist: &History, viol: &Violation) -> (Case, History, Violation, bool) {
    let budget: usize = std::env::var("DST_MIN_BUDGET").ok().and_then(|s| s.parse().ok()).unwrap_or(2500);
    let mut ctx = Ctx {
        target: viol,
        runs: 0,
        budget,
    };
    // 0. pin the failing schedule
    let mut best = case.clone();
    best.sched.explicit = Some(hist.out.decisions.clone());
    let (mut best_h, mut best_v) = match try_case(&mut ctx, &best, 1) {
        Some((c, h, v)) => {
            best = c;
            (h, v)
        }
        None => {
            // should not happen (determinism); fall back to the seeded case
            let (h, _) = eval_case(case);
            let mut c = case.clone();
            c.sched.explicit = None;
            return (c, h, viol.clone(), false);
        }
    };
    // 1. shrink the program: chunks first, then single operations. A candidate drops its explicit
    // schedule (the decisions no longer line up) and is re-searched under a few schedule seeds;
    // once accepted its own failing schedule is pinned again.
    let mut chunk = (best.ops.len() / 4).max(1);
    loop {
        let mut progress = false;
        let mut i = best.ops.len();
        while i > 0 {
            let lo = i.saturating_sub(chunk);
            let mut cand = best.clone();
            let mut removed = 0;
            let mut k = i;
            while k > lo {
                k -= 1;
                if removable(&cand.ops[k].op) {
                    cand.ops.remove(k);
                    removed += 1;
                }
            }
            i = lo;
            if removed == 0 {
                continue;
            }
            let mut cand = sanitize(&cand);
            if cand.ops.len() >= best.ops.len() {
                continue;
            }
            cand.sched.explicit = None;
            if let Some((mut c, h, v)) = try_case(&mut ctx, &cand, 12) {
                c.sched.explicit = Some(h.out.decisions.clone());
                best = c;
                best_h = h;
                best_v = v;
                progress = true;
                i = i.min(best.ops.len());
            }
            if ctx.runs >= ctx.budget {
                break;
            }
        }
        if ctx.runs >= ctx.budget {
            break;
        }
        if chunk == 1 && !progress {
            break;
        }
        if !progress || chunk > 1 {
            chunk = (chunk / 2).max(1);
        }
    }
    // 1b. simplify operations: drop inner ops and property counts
    for i in 0..best.ops.len() {
        if ctx.runs >= ctx.budget {
            break;
        }
        let mut cand = best.clone();
        let mut changed = false;
        if !cand.ops[i].inner.is_empty() {
            cand.ops[i].inner.clear();
            changed = true;
        }
        if changed {
            let mut cand = sanitize(&cand);
            if cand.ops.len() == best.ops.len() {
                cand.sched.explicit = None;
                if let Some((mut c, h, v)) = try_case(&mut ctx, &cand, 6) {
                    c.sched.explicit = Some(h.out.decisions.clone());
                    best = c;
                    best_h = h;
                    best_v = v;
                }
            }
        }
    }
    // 2. shrink the fault plan
    for step in 0..4 {
        if ctx.runs >= ctx.budget {
            break;
        }
        let mut cand = best.clone();
        match step {
            0 if cand.sched.stall.is_some() || cand.sched.report_stall.is_some() => {
                cand.sched.stall = None;
                cand.sched.report_stall = None;
            }
            1 if !cand.sched.wall_steps.is_empty() => cand.sched.wall_steps.clear(),
            2 if cand.sched.ring_cap != 0 => cand.sched.ring_cap = 0,
            3 if cand.str_seed != 0 => cand.str_seed = 0,
            _ => continue,
        }
        if let Some((c, h, v)) = try_case(&mut ctx, &cand, 1) {
            best = c;
            best_h = h;
            best_v = v;
        }
    }
    // 3. shrink the schedule: replace chunks of decisions by "stay", then truncate
    if let Some(dec) = best.sched.explicit.clone() {
        let mut dec = dec;
        let mut chunk = (dec.len() / 2).max(1);
        while chunk >= 1 && ctx.runs < ctx.budget {
            let mut i = 0;
            while i < dec.len() && ctx.runs < ctx.budget {
                let hi = (i + chunk).min(dec.len());
                if dec[i..hi].iter().all(|d| *d == NO_DECISION) {
                    i = hi;
                    continue;
                }
                let mut cand_dec = dec.clone();
                for d in cand_dec[i..hi].iter_mut() {
                    *d = NO_DECISION;
                }
                let mut cand = best.clone();
                cand.sched.explicit = Some(cand_dec.clone());
                if let Some((c, h, v)) = try_case(&mut ctx, &cand, 1) {
                    dec = cand_dec;
                    best = c;
                    best_h = h;
                    best_v = v;
                }
                i = hi;
            }
            if chunk == 1 {
                break;
            }
            chunk /= 2;
        }
        // truncate trailing "stay" decisions
        while dec.last() == Some(&NO_DECISION) {
            dec.pop();
        }
        let mut cand = best.clone();
        cand.sched.explicit = Some(dec);
        if let Some((c, h, v)) = try_case(&mut ctx, &cand, 1) {
            best = c;
            best_h = h;
            best_v = v;
        }
    }
    (best, best_h, best_v, true)
}


// ---------------------------------------------------------------------------------------------
// Minimisation of condemning runs (deadlock, livelock, process abort): every candidate is
// evaluated in a fresh process (`dst runcase <file>`), because such a run cannot be survived.

#[derive(Clone, Debug)]
pub struct RunSummary {
    pub violations: Vec<Violation>,
    pub decisions: Vec<u16>,
    pub log_hash: String,
}

pub fn eval_in_subprocess(case: &Case, tmp: &str) -> Option<RunSummary> {
    std::fs::write(tmp, serde_json::to_string(case).ok()?).ok()?;
    let exe = crate::driver::exe_for(case)?;
    let out = std::process::Command::new(exe).arg("runcase").arg(tmp).output().ok()?;
    let text = String::from_utf8_lossy(&out.stdout).to_string();
    let mut violations: Vec<Violation> = vec![];
    let mut decisions: Vec<u16> = vec![];
    let mut log_hash = String::new();
    let mut saw_verdict = false;
    for l in text.lines() {
        if let Some(j) = l.strip_prefix("VERDICT ") {
            violations = serde_json::from_str(j).unwrap_or_default();
            saw_verdict = true;
        } else if let Some(j) = l.strip_prefix("DECISIONS ") {
            decisions = serde_json::from_str(j).unwrap_or_default();
        } else if let Some(j) = l.strip_prefix("LOGHASH ") {
            log_hash = j.trim().to_string();
        }
    }
    if !saw_verdict {
        // the process died before it could report: abort, stack overflow, signal
        violations.push(Violation {
            prop: "C07".into(),
            clause: "C07.abort".into(),
            sig: "process-abort".into(),
            msg: format!("the process running the case died ({:?})", out.status),
        });
    }
    Some(RunSummary {
        violations,
        decisions,
        log_hash,
    })
}

/// shrinks a condemning case; returns the smallest case found with the summary of its last run
pub fn minimise_hard(case: &Case, viol: &Violation, tmp: &str, budget: usize) -> Option<(Case, RunSummary)> {
    let mut runs = 0usize;
    let hit = |s: &RunSummary| s.violations.iter().any(|v| v.clause == viol.clause && v.sig == viol.sig);
    let eval = |c: &Case, runs: &mut usize| -> Option<RunSummary> {
        *runs += 1;
        eval_in_subprocess(c, tmp)
    };
    let mut best = case.clone();
    let mut best_s = eval(&best, &mut runs)?;
    if !hit(&best_s) {
        return None;
    }
    if !best_s.decisions.is_empty() {
        best.sched.explicit = Some(best_s.decisions.clone());
    }
    // programs: chunks, then single operations
    let mut chunk = (best.ops.len() / 4).max(1);
    loop {
        let mut progress = false;
        let mut i = best.ops.len();
        while i > 0 && runs < budget {
            let lo = i.saturating_sub(chunk);
            let mut cand = best.clone();
            let mut removed = 0;
            let mut k = i;
            while k > lo {
                k -= 1;
                if removable(&cand.ops[k].op) {
                    cand.ops.remove(k);
                    removed += 1;
                }
            }
            i = lo;
            if removed == 0 {
                continue;
            }
            let mut cand = sanitize(&cand);
            if cand.ops.len() >= best.ops.len() {
                continue;
            }
            // the old decisions no longer line up: try the seeded schedule and two reseeds
            let mut found = None;
            for r in 0..3u64 {
                cand.sched.explicit = None;
                if r > 0 {
                    cand.sched.seed = mix(best.sched.seed ^ (r << 20));
                }
                if let Some(s) = eval(&cand, &mut runs) {
                    if hit(&s) {
                        found = Some(s);
                        break;
                    }
                }
                if runs >= budget {
                    break;
                }
            }
            if let Some(s) = found {
                if !s.decisions.is_empty() {
                    cand.sched.explicit = Some(s.decisions.clone());
                }
                best = cand;
                best_s = s;
                progress = true;
                i = i.min(best.ops.len());
            }
        }
        if runs >= budget || (chunk == 1 && !progress) {
            break;
        }
        if !progress || chunk > 1 {
            chunk = (chunk / 2).max(1);
        }
    }
    // fault plan
    for step in 0..3 {
        if runs >= budget {
            break;
        }
        let mut cand = best.clone();
        match step {
            0 if cand.sched.stall.is_some() || cand.sched.report_stall.is_some() => {
                cand.sched.stall = None;
                cand.sched.report_stall = None;
            }
            1 if cand.sched.ring_cap != 0 => cand.sched.ring_cap = 0,
            2 if cand.str_seed != 0 => cand.str_seed = 0,
            _ => continue,
        }
        if let Some(s) = eval(&cand, &mut runs) {
            if hit(&s) {
                best = cand;
                best_s = s;
            }
        }
    }
    // schedule: replace chunks of decisions by "stay"
    if let Some(mut dec) = best.sched.explicit.clone() {
        let mut chunk = (dec.len() / 2).max(1);
        while runs < budget {
            let mut i = 0;
            while i < dec.len() && runs < budget {
                let hi = (i + chunk).min(dec.len());
                if dec[i..hi].iter().all(|d| *d == NO_DECISION) {
                    i = hi;
                    continue;
                }
                let mut cd = dec.clone();
                for d in cd[i..hi].iter_mut() {
                    *d = NO_DECISION;
                }
                let mut cand = best.clone();
                cand.sched.explicit = Some(cd.clone());
                if let Some(s) = eval(&cand, &mut runs) {
                    if hit(&s) {
                        dec = cd;
                        best = cand;
                        best_s = s;
                    }
                }
                i = hi;
            }
            if chunk == 1 {
                break;
            }
            chunk /= 2;
        }
        while dec.last() == Some(&NO_DECISION) {
            dec.pop();
        }
        let mut cand = best.clone();
        cand.sched.explicit = Some(dec);
        if let Some(s) = eval(&cand, &mut runs) {
            if hit(&s) {
                best = cand;
                best_s = s;
            }
        }
    }
    Some((best, best_s))
}
