//! Sequential reference model of the tracing semantics (DESIGN §3.2, Appendix A).
//!
//! Evaluated over the script in script order it yields the expected records, attachments, return
//! values and closure-invocation counts. It contains no concurrency: everything that depends on
//! the schedule (ring-full losses, which batch) is decided by the oracles from the hook log.

use std::collections::HashMap;

use crate::prog::*;

pub const QUEUE_CAP: usize = 10240;
pub const STACK_CAP: usize = 4096;

pub type OpRef = u32;

#[derive(Clone, Copy, Debug, PartialEq, Eq, Hash, PartialOrd, Ord)]
pub enum PRef {
    Remote(u64),
    Node(u32),
}

#[derive(Clone, Copy, Debug, PartialEq)]
pub struct Item {
    pub collect: usize,
    pub parent: PRef,
    pub sampled: bool,
}

#[derive(Clone, Debug)]
pub struct Collect {
    pub trace_id: u128,
    pub parent: PRef,
    pub sampled: bool,
    pub root_node: u32,
    pub create_op: OpRef,
    pub cancels: Vec<OpRef>,
    pub finish_op: Option<OpRef>,
    pub thread: u8,
    pub cancelable: bool,
}

#[derive(Clone, Debug)]
pub struct SpanM {
    pub node: u32,
    pub recording: bool,
    pub items: Vec<Item>,
    pub root_of: Option<usize>,
    pub name: String,
    pub props: Vec<(String, String)>,
    pub create_op: OpRef,
    pub thread: u8,
    pub users: Vec<OpRef>,
}

#[derive(Clone, Debug)]
pub enum Entry {
    Span {
        node: u32,
        parent: Option<u32>,
        name: String,
        props: Vec<(String, String)>,
        begin: OpRef,
        end: Option<OpRef>,
    },
    Event {
        parent: Option<u32>,
        name: String,
        props: Vec<(String, String)>,
        op: OpRef,
    },
    Props {
        parent: Option<u32>,
        props: Vec<(String, String)>,
        op: OpRef,
    },
}

#[derive(Clone, Debug)]
pub struct Scope {
    /// None = local collector scope
    pub token: Option<Vec<Item>>,
    pub sampled: bool,
    pub entries: Vec<Entry>,
    pub open: Vec<u32>,
    pub open_op: OpRef,
    /// span set as local parent (node), for the route bookkeeping
    pub of_span: Option<u32>,
}

#[derive(Clone, Debug)]
pub enum LH {
    Guard { real: bool },
    LSpan { node: Option<u32>, dead: bool },
    Coll { real: bool },
}

#[derive(Clone, Debug)]
pub struct SetM {
    pub entries: Vec<Entry>,
    pub collect_op: OpRef,
    pub pushes: Vec<OpRef>,
}

#[derive(Clone, Debug, PartialEq)]
pub struct CtxM {
    pub trace_id: u128,
    pub span: PRef,
    pub sampled: bool,
}

#[derive(Clone, Debug)]
pub struct TaskM {
    pub wrap: Wrap,
    pub span: Option<SpanM>,
    pub node: u32,
    pub done: bool,
    /// spans the scripted future holds across its suspension points (released when it is dropped)
    pub held: Vec<SpanM>,
}

#[derive(Clone, Debug)]
pub enum SlotM {
    Empty,
    Span(SpanM),
    Set(SetM),
    Ctx(Option<CtxM>),
    Task(TaskM),
    /// a prepared Event value: (name, properties)
    Event(String, Vec<(String, String)>),
    Gone,
}

#[derive(Clone, Debug, Default)]
pub struct ThreadM {
    pub spawned: bool,
    pub ended: bool,
    pub joined: bool,
    pub stack: Vec<LH>,
    pub scopes: Vec<Scope>,
    pub nops: usize,
}

#[derive(Clone, Copy, Debug, PartialEq, Eq, Hash, PartialOrd, Ord)]
pub enum Route {
    Creation,
    Handle,
    Local,
}

#[derive(Clone, Debug)]
pub struct ExpRec {
    pub node: u32,
    pub collect: usize,
    pub trace_id: u128,
    pub parent: PRef,
    pub name: String,
    pub props: Vec<(String, String)>,
    /// the operation whose execution submits the set this record travels in
    pub submit_op: OpRef,
    pub begin_op: OpRef,
    pub end_op: OpRef,
    pub local: bool,
    /// local span still open when its set was collected
    pub open_at_collect: bool,
    /// the local-parent scope (its opening op) this record was recorded in, if any
    pub scope_op: Option<OpRef>,
    /// a detached set pushed under a span: (set slot collect op)
    pub from_set: Option<OpRef>,
}

#[derive(Clone, Debug)]
pub enum Payload {
    Props(Vec<(String, String)>),
    Event { name: String, props: Vec<(String, String)> },
}

#[derive(Clone, Debug)]
pub struct ExpAtt {
    pub target: PRef,
    pub collect: usize,
    pub trace_id: u128,
    pub payload: Payload,
    pub route: Route,
    pub thread: u8,
    pub made_op: OpRef,
    pub submit_op: OpRef,
    pub from_set: Option<OpRef>,
    /// the scope (its opening op) that carried the attachment, for the local route
    pub scope_op: Option<OpRef>,
}

#[derive(Clone, Debug, PartialEq)]
pub enum ExpRet {
    None,
    Ctx(Option<CtxM>),
    /// Some(begin op) if the span is recording
    Elapsed(Option<OpRef>),
    Records(Vec<usize>), // indices into Model.to_records
}

#[derive(Clone, Debug)]
pub struct ToRec {
    pub op: OpRef,
    pub trace_id: u128,
    pub parent: u64,
    pub entries: Vec<Entry>,
    pub collect_op: OpRef,
}

#[derive(Clone)]
pub struct Model {
    pub traces: Vec<TraceSpec>,
    pub str_seed: u64,
    pub reporter: Option<(bool, u64)>,
    pub reporter_op: Option<OpRef>,
    /// reporter replacements (every trace not started after one of them is only checked for safety)
    pub replace_ops: Vec<OpRef>,
    pub slots: Vec<SlotM>,
    pub threads: Vec<ThreadM>,
    pub collects: Vec<Collect>,
    pub used_traces: Vec<bool>,
    pub recs: Vec<ExpRec>,
    pub atts: Vec<ExpAtt>,
    pub rets: HashMap<OpRef, ExpRet>,
    /// expected closure invocations per op: (min, max)
    pub closures: HashMap<OpRef, (u32, u32)>,
    pub to_records: Vec<ToRec>,
    /// nodes by id: (name, is_local, thread, begin op)
    pub nodes: HashMap<u32, (String, bool, u8)>,
    /// D6 guard: a CtxCurrent evaluated on an empty token
    pub empty_token_ctx: Vec<OpRef>,
    pub cur_thread: u8,
    /// per op: thread
    pub op_thread: HashMap<OpRef, u8>,
    /// flags for probes
    pub multi_parent_same_trace: u32,
    pub mixed_sampled_parents: u32,
    /// scopes whose stack/queue limits were hit
    pub scope_limit_hits: u32,
    pub stack_limit_hits: u32,
    /// nodes of enter_on_poll adapters: one record per poll, all with the adapter's name
    pub poll_nodes: Vec<u32>,
    /// poll ops that completed their task
    pub final_polls: Vec<OpRef>,
    /// #[trace] twin calls: (op, token of the local parent the traced call runs under)
    pub twin_calls: Vec<(OpRef, Vec<Item>)>,
    pub cur_task: Option<Slot>,
}

type R = Result<(), String>;

fn err<T>(s: &str) -> Result<T, String> {
    Err(s.to_string())
}

impl Model {
    pub fn new(traces: &[TraceSpec], str_seed: u64, threads: usize) -> Model {
        let mut th = vec![ThreadM::default(); threads.max(1)];
        th[0].spawned = true;
        Model {
            traces: traces.to_vec(),
            str_seed,
            reporter: None,
            reporter_op: None,
            replace_ops: vec![],
            slots: vec![],
            threads: th,
            collects: vec![],
            used_traces: vec![false; traces.len()],
            recs: vec![],
            atts: vec![],
            rets: HashMap::new(),
            closures: HashMap::new(),
            to_records: vec![],
            nodes: HashMap::new(),
            empty_token_ctx: vec![],
            cur_thread: 0,
            op_thread: HashMap::new(),
            multi_parent_same_trace: 0,
            mixed_sampled_parents: 0,
            scope_limit_hits: 0,
            stack_limit_hits: 0,
            poll_nodes: vec![],
            final_polls: vec![],
            twin_calls: vec![],
            cur_task: None,
        }
    }

    pub fn from_case(case: &Case) -> Result<Model, String> {
        let mut m = Model::new(&case.traces, case.str_seed, case.threads as usize);
        for (i, rec) in case.ops.iter().enumerate() {
            m.apply(i, rec).map_err(|e| format!("op {} {:?}: {}", i, rec.op, e))?;
        }
        Ok(m)
    }

    fn slot(&mut self, s: Slot) -> &mut SlotM {
        let s = s as usize;
        if self.slots.len() <= s {
            self.slots.resize(s + 1, SlotM::Empty);
        }
        &mut self.slots[s]
    }

    pub fn slot_ref(&self, s: Slot) -> &SlotM {
        self.slots.get(s as usize).unwrap_or(&SlotM::Empty)
    }

    fn empty_slot(&mut self, s: Slot) -> R {
        match self.slot(s) {
            SlotM::Empty => Ok(()),
            _ => err("slot already used"),
        }
    }

    fn span(&self, s: Slot) -> Result<&SpanM, String> {
        match self.slot_ref(s) {
            SlotM::Span(sp) => Ok(sp),
            _ => err("slot holds no live span"),
        }
    }

    fn props(&self, node: u32, n: u8) -> Vec<(String, String)> {
        (0..n as usize).map(|j| prop_kv(self.str_seed, node, j)).collect()
    }

    pub fn cancelable(&self) -> bool {
        self.reporter.map(|r| r.0).unwrap_or(false)
    }

    fn issue(sp: &SpanM) -> Vec<Item> {
        sp.items
            .iter()
            .map(|it| Item {
                collect: it.collect,
                parent: PRef::Node(sp.node),
                sampled: it.sampled,
            })
            .collect()
    }

    fn top_scope(&mut self, t: u8) -> Option<&mut Scope> {
        self.threads[t as usize].scopes.last_mut()
    }

    /// token of a span created from the thread's local context (None = no-op span)
    fn local_token(&self, t: u8) -> Option<Vec<Item>> {
        let sc = self.threads[t as usize].scopes.last()?;
        let tok = sc.token.as_ref()?;
        let cur = sc.open.last().copied();
        Some(
            tok.iter()
                .map(|it| Item {
                    collect: it.collect,
                    parent: cur.map(PRef::Node).unwrap_or(it.parent),
                    sampled: it.sampled,
                })
                .collect(),
        )
    }

    fn closure_expect(&mut self, op: OpRef, n: u8, recording: bool, sampled: bool) {
        if n == 0 {
            return;
        }
        let e = if !recording {
            (0, 0)
        } else if sampled {
            (1, 1)
        } else {
            (0, 1)
        };
        self.closures.insert(op, e);
    }

    fn new_span(&mut self, op: OpRef, t: u8, items: Vec<Item>, root_of: Option<usize>, nprops: u8) -> SpanM {
        let name = span_name(self.str_seed, op);
        self.nodes.insert(op, (name.clone(), false, t));
        let sampled = items.iter().any(|i| i.sampled);
        self.closure_expect(op, nprops, true, sampled);
        SpanM {
            node: op,
            recording: true,
            items,
            root_of,
            name,
            props: self.props(op, nprops),
            create_op: op,
            thread: t,
            users: vec![],
        }
    }

    fn noop_span(&mut self, op: OpRef, t: u8, nprops: u8) -> SpanM {
        self.closure_expect(op, nprops, false, false);
        SpanM {
            node: op,
            recording: false,
            items: vec![],
            root_of: None,
            name: String::new(),
            props: vec![],
            create_op: op,
            thread: t,
            users: vec![],
        }
    }

    fn finish_span(&mut self, sp: SpanM, op: OpRef) {
        if !sp.recording {
            return;
        }
        for it in sp.items.iter().filter(|i| i.sampled) {
            self.recs.push(ExpRec {
                node: sp.node,
                collect: it.collect,
                trace_id: self.collects[it.collect].trace_id,
                parent: it.parent,
                name: sp.name.clone(),
                props: sp.props.clone(),
                submit_op: op,
                begin_op: sp.create_op,
                end_op: op,
                local: false,
                open_at_collect: false,
                scope_op: None,
                from_set: None,
            });
        }
        if let Some(c) = sp.root_of {
            self.collects[c].finish_op = Some(op);
        }
    }

    /// deliver the entries of a set under `items` (a scope end or a push)
    fn submit_entries(
        &mut self,
        entries: &[Entry],
        items: &[Item],
        op: OpRef,
        t: u8,
        scope_op: Option<OpRef>,
        from_set: Option<OpRef>,
        collect_op: OpRef,
    ) {
        for it in items.iter().filter(|i| i.sampled) {
            let trace_id = self.collects[it.collect].trace_id;
            for e in entries {
                match e {
                    Entry::Span {
                        node,
                        parent,
                        name,
                        props,
                        begin,
                        end,
                    } => self.recs.push(ExpRec {
                        node: *node,
                        collect: it.collect,
                        trace_id,
                        parent: parent.map(PRef::Node).unwrap_or(it.parent),
                        name: name.clone(),
                        props: props.clone(),
                        submit_op: op,
                        begin_op: *begin,
                        end_op: end.unwrap_or(collect_op),
                        local: true,
                        open_at_collect: end.is_none(),
                        scope_op,
                        from_set,
                    }),
                    Entry::Event {
                        parent,
                        name,
                        props,
                        op: made,
                    } => self.atts.push(ExpAtt {
                        target: parent.map(PRef::Node).unwrap_or(it.parent),
                        collect: it.collect,
                        trace_id,
                        payload: Payload::Event {
                            name: name.clone(),
                            props: props.clone(),
                        },
                        route: Route::Local,
                        thread: t,
                        made_op: *made,
                        submit_op: op,
                        from_set,
                        scope_op,
                    }),
                    Entry::Props { parent, props, op: made } => self.atts.push(ExpAtt {
                        target: parent.map(PRef::Node).unwrap_or(it.parent),
                        collect: it.collect,
                        trace_id,
                        payload: Payload::Props(props.clone()),
                        route: Route::Local,
                        thread: t,
                        made_op: *made,
                        submit_op: op,
                        from_set,
                        scope_op,
                    }),
                }
            }
        }
    }

    fn pop_handle(&mut self, t: u8, op: OpRef, into: Option<Slot>) -> R {
        let h = match self.threads[t as usize].stack.pop() {
            Some(h) => h,
            None => return err("nothing to pop"),
        };
        match h {
            LH::LSpan { node, .. } => {
                if let Some(n) = node {
                    if let Some(sc) = self.top_scope(t) {
                        if sc.open.last() == Some(&n) {
                            sc.open.pop();
                            for e in sc.entries.iter_mut() {
                                if let Entry::Span { node, end, .. } = e {
                                    if *node == n {
                                        *end = Some(op);
                                    }
                                }
                            }
                        }
                    }
                }
                if into.is_some() {
                    return err("into on a local span");
                }
            }
            LH::Guard { real } => {
                if into.is_some() {
                    return err("into on a guard");
                }
                if real {
                    let sc = self.threads[t as usize].scopes.pop().ok_or("scope underflow")?;
                    let tok = sc.token.clone().unwrap_or_default();
                    self.submit_entries(&sc.entries, &tok, op, t, Some(sc.open_op), None, op);
                }
            }
            LH::Coll { real } => {
                let (entries, real) = if real {
                    let sc = self.threads[t as usize].scopes.pop().ok_or("scope underflow")?;
                    (sc.entries, true)
                } else {
                    (vec![], false)
                };
                let _ = real;
                if let Some(s) = into {
                    self.empty_slot(s)?;
                    *self.slot(s) = SlotM::Set(SetM {
                        entries,
                        collect_op: op,
                        pushes: vec![],
                    });
                }
            }
        }
        Ok(())
    }

    fn use_span(&mut self, s: Slot, op: OpRef) -> Result<SpanM, String> {
        match self.slot(s) {
            SlotM::Span(sp) => {
                sp.users.push(op);
                Ok(sp.clone())
            }
            _ => err("slot holds no live span"),
        }
    }

    pub fn apply(&mut self, idx: usize, rec: &OpRec) -> R {
        let t = rec.t;
        if (t as usize) >= self.threads.len() {
            return err("no such thread");
        }
        if !self.threads[t as usize].spawned {
            return err("thread not spawned yet");
        }
        if self.threads[t as usize].ended {
            return err("thread already ended");
        }
        let op = node_id(idx, None);
        if rec.inner.len() > 14 {
            return err("too many inner ops");
        }
        self.cur_thread = t;
        self.op_thread.insert(op, t);
        self.threads[t as usize].nops += 1;
        self.apply_op(op, t, &rec.op, &rec.inner, idx, false)
    }

    fn run_inner(&mut self, idx: usize, t: u8, inner: &[Op]) -> R {
        let depth = self.threads[t as usize].stack.len();
        for (k, iop) in inner.iter().enumerate() {
            let r = node_id(idx, Some(k));
            self.op_thread.insert(r, t);
            self.apply_op(r, t, iop, &[], idx, true)?;
        }
        if self.threads[t as usize].stack.len() != depth {
            return err("inner ops must be balanced");
        }
        Ok(())
    }

    fn apply_op(&mut self, op: OpRef, t: u8, o: &Op, inner: &[Op], idx: usize, is_inner: bool) -> R {
        match o {
            Op::SetReporter { cancelable, interval_ns } => {
                if is_inner || t != 0 {
                    return err("SetReporter only on main");
                }
                if self.reporter.is_some() {
                    return err("reporter already set");
                }
                if self.threads.iter().skip(1).any(|x| x.spawned) {
                    return err("SetReporter must precede spawns");
                }
                self.reporter = Some((*cancelable, *interval_ns));
                self.reporter_op = Some(op);
            }
            Op::ReplaceReporter { cancelable, interval_ns } => {
                if is_inner || t != 0 {
                    return err("ReplaceReporter only on main");
                }
                if self.reporter != Some((*cancelable, *interval_ns)) {
                    return err("ReplaceReporter keeps the configuration");
                }
                self.replace_ops.push(op);
            }
            Op::Spawn { t: nt } => {
                if is_inner {
                    return err("no inner spawn");
                }
                let nt = *nt as usize;
                if nt == 0 || nt >= self.threads.len() || self.threads[nt].spawned {
                    return err("bad spawn");
                }
                self.threads[nt].spawned = true;
            }
            Op::Join { t: jt } => {
                if is_inner {
                    return err("no inner join");
                }
                let jt = *jt as usize;
                if jt == 0 || jt >= self.threads.len() || jt == t as usize {
                    return err("bad join");
                }
                if !self.threads[jt].ended || self.threads[jt].joined {
                    return err("join of a thread that has not ended in script order");
                }
                self.threads[jt].joined = true;
            }
            Op::ThreadEnd => {
                if is_inner {
                    return err("no inner end");
                }
                while !self.threads[t as usize].stack.is_empty() {
                    self.pop_handle(t, op, None)?;
                }
                if t == 0 {
                    for (i, th) in self.threads.iter().enumerate() {
                        if i != 0 && th.spawned && !th.ended {
                            return err("main ends before a spawned thread");
                        }
                    }
                    for s in 0..self.slots.len() {
                        match std::mem::replace(&mut self.slots[s], SlotM::Gone) {
                            SlotM::Span(sp) => self.finish_span(sp, op),
                            SlotM::Task(tk) => {
                                for h in tk.held {
                                    self.finish_span(h, op);
                                }
                                if let Some(sp) = tk.span {
                                    self.finish_span(sp, op)
                                }
                            }
                            SlotM::Empty => self.slots[s] = SlotM::Empty,
                            _ => {}
                        }
                    }
                }
                self.threads[t as usize].ended = true;
            }
            Op::Flush | Op::Cycle | Op::Stats => {
                if is_inner {
                    return err("not inside a closure");
                }
            }
            Op::Sleep { .. } | Op::Advance { .. } => {}
            Op::Root { slot, trace, props } => {
                self.empty_slot(*slot)?;
                let tr = *trace as usize;
                if tr >= self.traces.len() || self.used_traces[tr] {
                    return err("trace entry unavailable");
                }
                self.used_traces[tr] = true;
                let sp = if self.reporter.is_none() {
                    self.noop_span(op, t, *props)
                } else {
                    let spec = self.traces[tr].clone();
                    let c = self.collects.len();
                    self.collects.push(Collect {
                        trace_id: spec.trace_id,
                        parent: PRef::Remote(spec.parent_span),
                        sampled: spec.sampled,
                        root_node: op,
                        create_op: op,
                        cancels: vec![],
                        finish_op: None,
                        thread: t,
                        cancelable: self.cancelable(),
                    });
                    let items = vec![Item {
                        collect: c,
                        parent: PRef::Remote(spec.parent_span),
                        sampled: spec.sampled,
                    }];
                    self.new_span(op, t, items, Some(c), *props)
                };
                let rec = sp.recording;
                *self.slot(*slot) = SlotM::Span(sp);
                if rec && *props > 0 {
                    self.run_inner(idx, t, inner)?;
                }
            }
            Op::RootFromCtx { slot, ctx, w3c: _, props } => {
                self.empty_slot(*slot)?;
                let cm = match self.slot_ref(*ctx) {
                    SlotM::Ctx(c) => c.clone(),
                    _ => return err("no ctx in slot"),
                };
                let sp = match (cm, self.reporter.is_some()) {
                    (Some(cm), true) => {
                        let c = self.collects.len();
                        self.collects.push(Collect {
                            trace_id: cm.trace_id,
                            parent: cm.span,
                            sampled: cm.sampled,
                            root_node: op,
                            create_op: op,
                            cancels: vec![],
                            finish_op: None,
                            thread: t,
                            cancelable: self.cancelable(),
                        });
                        let items = vec![Item {
                            collect: c,
                            parent: cm.span,
                            sampled: cm.sampled,
                        }];
                        self.new_span(op, t, items, Some(c), *props)
                    }
                    _ => self.noop_span(op, t, *props),
                };
                *self.slot(*slot) = SlotM::Span(sp);
            }
            Op::Noop { slot } => {
                self.empty_slot(*slot)?;
                let sp = self.noop_span(op, t, 0);
                *self.slot(*slot) = SlotM::Span(sp);
            }
            Op::Child {
                slot,
                parents,
                multi,
                props,
            } => {
                self.empty_slot(*slot)?;
                if parents.is_empty() && !*multi {
                    return err("enter_with_parent needs a parent");
                }
                for (i, p) in parents.iter().enumerate() {
                    if parents[..i].contains(p) {
                        return err("duplicate parent");
                    }
                }
                let mut ps = vec![];
                for p in parents {
                    ps.push(self.use_span(*p, op)?);
                }
                let sp = if !*multi && ps.len() == 1 && !ps[0].recording {
                    self.noop_span(op, t, *props)
                } else {
                    let items: Vec<Item> = ps.iter().filter(|p| p.recording).flat_map(Model::issue).collect();
                    // probes
                    let mut seen: Vec<usize> = vec![];
                    let mut dup = false;
                    for it in &items {
                        if seen.contains(&it.collect) {
                            dup = true;
                        }
                        seen.push(it.collect);
                    }
                    if dup {
                        self.multi_parent_same_trace += 1;
                    }
                    if items.iter().any(|i| i.sampled) && items.iter().any(|i| !i.sampled) {
                        self.mixed_sampled_parents += 1;
                    }
                    self.new_span(op, t, items, None, *props)
                };
                let rec = sp.recording;
                *self.slot(*slot) = SlotM::Span(sp);
                if rec && *props > 0 {
                    self.run_inner(idx, t, inner)?;
                }
            }
            Op::ChildLocal { slot, props } => {
                self.empty_slot(*slot)?;
                let sp = match self.local_token(t) {
                    Some(items) => self.new_span(op, t, items, None, *props),
                    None => self.noop_span(op, t, *props),
                };
                let rec = sp.recording;
                *self.slot(*slot) = SlotM::Span(sp);
                if rec && *props > 0 {
                    self.run_inner(idx, t, inner)?;
                }
            }
            Op::AddProps { slot, n } => {
                let sp = self.use_span(*slot, op)?;
                let sampled = sp.items.iter().any(|i| i.sampled);
                self.closure_expect(op, *n, sp.recording, sampled);
                if sp.recording {
                    if *n > 0 {
                        self.run_inner(idx, t, inner)?;
                    }
                    let props = self.props(op, *n);
                    for it in sp.items.iter().filter(|i| i.sampled) {
                        self.atts.push(ExpAtt {
                            target: PRef::Node(sp.node),
                            collect: it.collect,
                            trace_id: self.collects[it.collect].trace_id,
                            payload: Payload::Props(props.clone()),
                            route: Route::Handle,
                            thread: t,
                            made_op: op,
                            submit_op: op,
                            from_set: None,
                            scope_op: None,
                        });
                    }
                }
            }
            Op::AddEvent { slot, n } => {
                let sp = self.use_span(*slot, op)?;
                // Event::with_properties evaluates its closure when the event is built
                if *n > 0 {
                    self.closures.insert(op, (1, 1));
                    self.run_inner(idx, t, inner)?;
                }
                if sp.recording {
                    let props = self.props(op, *n);
                    let name = event_name(self.str_seed, op);
                    for it in sp.items.iter().filter(|i| i.sampled) {
                        self.atts.push(ExpAtt {
                            target: PRef::Node(sp.node),
                            collect: it.collect,
                            trace_id: self.collects[it.collect].trace_id,
                            payload: Payload::Event {
                                name: name.clone(),
                                props: props.clone(),
                            },
                            route: Route::Handle,
                            thread: t,
                            made_op: op,
                            submit_op: op,
                            from_set: None,
                            scope_op: None,
                        });
                    }
                }
            }
            Op::Finish { slot, .. } => {
                let sp = match std::mem::replace(self.slot(*slot), SlotM::Gone) {
                    SlotM::Span(sp) => sp,
                    other => {
                        *self.slot(*slot) = other;
                        return err("finish of a slot without live span");
                    }
                };
                self.finish_span(sp, op);
            }
            Op::Cancel { slot } => {
                let sp = self.use_span(*slot, op)?;
                if let Some(c) = sp.root_of {
                    if sp.recording {
                        self.collects[c].cancels.push(op);
                    }
                }
            }
            Op::Elapsed { slot } => {
                let sp = self.use_span(*slot, op)?;
                self.rets
                    .insert(op, ExpRet::Elapsed(if sp.recording { Some(sp.create_op) } else { None }));
            }
            Op::CtxSpan { slot, ctx } => {
                self.empty_slot(*ctx)?;
                let sp = self.use_span(*slot, op)?;
                let c = if sp.recording {
                    sp.items.first().map(|it| CtxM {
                        trace_id: self.collects[it.collect].trace_id,
                        span: PRef::Node(sp.node),
                        sampled: it.sampled,
                    })
                } else {
                    None
                };
                self.rets.insert(op, ExpRet::Ctx(c.clone()));
                *self.slot(*ctx) = SlotM::Ctx(c);
            }
            Op::CtxCurrent { ctx } => {
                self.empty_slot(*ctx)?;
                let c = match self.local_token(t) {
                    None => None,
                    Some(tok) => {
                        if tok.is_empty() {
                            self.empty_token_ctx.push(op);
                        }
                        tok.first().map(|it| CtxM {
                            trace_id: self.collects[it.collect].trace_id,
                            span: it.parent,
                            sampled: it.sampled,
                        })
                    }
                };
                self.rets.insert(op, ExpRet::Ctx(c.clone()));
                *self.slot(*ctx) = SlotM::Ctx(c);
            }
            Op::SetLocalParent { slot } => {
                let sp = self.use_span(*slot, op)?;
                if !sp.recording {
                    // inert guard, pushes no scope
                    self.threads[t as usize].stack.push(LH::Guard { real: false });
                } else if self.threads[t as usize].scopes.len() >= STACK_CAP {
                    self.stack_limit_hits += 1;
                    self.threads[t as usize].stack.push(LH::Guard { real: false });
                } else {
                    let token = Model::issue(&sp);
                    let sampled = token.iter().any(|i| i.sampled);
                    self.threads[t as usize].scopes.push(Scope {
                        token: Some(token),
                        sampled,
                        entries: vec![],
                        open: vec![],
                        open_op: op,
                        of_span: Some(sp.node),
                    });
                    self.threads[t as usize].stack.push(LH::Guard { real: true });
                }
            }
            Op::StartCollector => {
                if self.threads[t as usize].scopes.len() >= STACK_CAP {
                    self.stack_limit_hits += 1;
                    self.threads[t as usize].stack.push(LH::Coll { real: false });
                } else {
                    self.threads[t as usize].scopes.push(Scope {
                        token: None,
                        sampled: true,
                        entries: vec![],
                        open: vec![],
                        open_op: op,
                        of_span: None,
                    });
                    self.threads[t as usize].stack.push(LH::Coll { real: true });
                }
            }
            Op::LocalEnter { props } => {
                let str_seed = self.str_seed;
                let pv = self.props(op, *props);
                let mut node = None;
                let mut full = false;
                if let Some(sc) = self.top_scope(t) {
                    if sc.sampled {
                        if sc.entries.len() >= QUEUE_CAP {
                            full = true;
                        } else {
                            let parent = sc.open.last().copied();
                            sc.entries.push(Entry::Span {
                                node: op,
                                parent,
                                name: span_name(str_seed, op),
                                props: pv,
                                begin: op,
                                end: None,
                            });
                            sc.open.push(op);
                            node = Some(op);
                        }
                    }
                }
                if full {
                    self.scope_limit_hits += 1;
                }
                if node.is_some() {
                    self.nodes.insert(op, (span_name(str_seed, op), true, t));
                }
                self.closure_expect(op, *props, node.is_some(), true);
                self.threads[t as usize].stack.push(LH::LSpan { node, dead: false });
                if node.is_some() && *props > 0 {
                    self.run_inner(idx, t, inner)?;
                }
            }
            Op::LocalWithProps { n } => {
                let node = match self.threads[t as usize].stack.last() {
                    Some(LH::LSpan { node, dead: false }) => *node,
                    _ => return err("top handle is not a live local span"),
                };
                let pv = self.props(op, *n);
                self.closure_expect(op, *n, node.is_some(), true);
                if let Some(nd) = node {
                    if let Some(sc) = self.top_scope(t) {
                        for e in sc.entries.iter_mut() {
                            if let Entry::Span { node, props, .. } = e {
                                if *node == nd {
                                    props.extend(pv.clone());
                                }
                            }
                        }
                    }
                    if *n > 0 {
                        self.run_inner(idx, t, inner)?;
                    }
                }
            }
            Op::LocalAddProps { n } => {
                let pv = self.props(op, *n);
                let ran = self.top_scope(t).map(|sc| sc.sampled).unwrap_or(false);
                self.closure_expect(op, *n, ran, true);
                if ran && *n > 0 {
                    // the closure runs before the entry is recorded
                    self.run_inner(idx, t, inner)?;
                }
                let mut full = false;
                if let Some(sc) = self.top_scope(t) {
                    if sc.sampled {
                        if sc.entries.len() >= QUEUE_CAP {
                            full = true;
                        } else {
                            let parent = sc.open.last().copied();
                            sc.entries.push(Entry::Props { parent, props: pv, op });
                        }
                    }
                }
                if full {
                    self.scope_limit_hits += 1;
                }
            }
            Op::LocalAddEvent { n } => {
                let pv = self.props(op, *n);
                let name = event_name(self.str_seed, op);
                if *n > 0 {
                    self.closures.insert(op, (1, 1));
                    self.run_inner(idx, t, inner)?;
                }
                let mut full = false;
                if let Some(sc) = self.top_scope(t) {
                    if sc.sampled {
                        if sc.entries.len() >= QUEUE_CAP {
                            full = true;
                        } else {
                            let parent = sc.open.last().copied();
                            sc.entries.push(Entry::Event {
                                parent,
                                name,
                                props: pv,
                                op,
                            });
                        }
                    }
                }
                if full {
                    self.scope_limit_hits += 1;
                }
            }
            Op::Pop { into } => {
                if is_inner && into.is_some() {
                    return err("no collect inside a closure");
                }
                self.pop_handle(t, op, *into)?;
            }
            Op::Push { slot, set } => {
                let sp = self.use_span(*slot, op)?;
                let (entries, collect_op) = match self.slot(*set) {
                    SlotM::Set(s) => {
                        s.pushes.push(op);
                        (s.entries.clone(), s.collect_op)
                    }
                    _ => return err("no set in slot"),
                };
                if sp.recording && !entries.is_empty() {
                    let items = Model::issue(&sp);
                    self.submit_entries(&entries, &items, op, t, None, Some(collect_op), collect_op);
                }
            }
            Op::ToRecords { set, trace } => {
                let (entries, collect_op) = match self.slot_ref(*set) {
                    SlotM::Set(s) => (s.entries.clone(), s.collect_op),
                    _ => return err("no set in slot"),
                };
                let tr = *trace as usize;
                if tr >= self.traces.len() {
                    return err("no such trace entry");
                }
                let k = self.to_records.len();
                self.to_records.push(ToRec {
                    op,
                    trace_id: self.traces[tr].trace_id,
                    parent: self.traces[tr].parent_span,
                    entries,
                    collect_op,
                });
                self.rets.insert(op, ExpRet::Records(vec![k]));
            }
            Op::Collect { into } => {
                if is_inner {
                    return err("not inside a closure");
                }
                let st = &mut self.threads[t as usize].stack;
                let pos = match st.iter().rposition(|h| matches!(h, LH::Guard { .. } | LH::Coll { .. })) {
                    Some(p) => p,
                    None => return err("no scope to end"),
                };
                if let (LH::Guard { .. }, Some(_)) = (&st[pos], into) {
                    return err("into on a guard");
                }
                // handles above it are local spans of that scope: dead from now on
                for h in st.iter_mut().skip(pos + 1) {
                    if let LH::LSpan { dead, .. } = h {
                        *dead = true;
                    }
                }
                let h = st.remove(pos);
                // pop_handle works on the top of the stack: put it there for a moment
                self.threads[t as usize].stack.push(h);
                let above: Vec<LH> = {
                    let st = &mut self.threads[t as usize].stack;
                    let n = st.len();
                    st.drain(pos..n - 1).collect()
                };
                self.pop_handle(t, op, *into)?;
                self.threads[t as usize].stack.extend(above);
            }
            Op::UnwindScope { slot, shape } => {
                if is_inner {
                    return err("not inside a closure");
                }
                // composed from its parts; everything is released (in order) by the unwinding
                match shape % 3 {
                    0 => {
                        self.apply_op(op, t, &Op::SetLocalParent { slot: *slot }, &[], idx, true)?;
                        self.apply_op(op, t, &Op::LocalEnter { props: 0 }, &[], idx, true)?;
                        self.pop_handle(t, op, None)?;
                        self.pop_handle(t, op, None)?;
                    }
                    1 => {
                        self.apply_op(op, t, &Op::SetLocalParent { slot: *slot }, &[], idx, true)?;
                        self.apply_op(op, t, &Op::StartCollector, &[], idx, true)?;
                        self.apply_op(op, t, &Op::LocalEnter { props: 0 }, &[], idx, true)?;
                        self.pop_handle(t, op, None)?;
                        // the collector is dropped without having been collected: its spans are gone
                        self.pop_handle(t, op, None)?;
                        self.pop_handle(t, op, None)?;
                    }
                    _ => {
                        self.use_span(*slot, op)?;
                        self.apply_op(op, t, &Op::LocalEnter { props: 0 }, &[], idx, true)?;
                        self.apply_op(op + 1, t, &Op::LocalEnter { props: 0 }, &[], idx, true)?;
                        self.pop_handle(t, op, None)?;
                        self.pop_handle(t, op, None)?;
                    }
                }
            }
            Op::UserPanic { .. } => {}
            Op::BodyPanic => {
                if !is_inner {
                    return err("only inside a poll body");
                }
            }
            Op::EventNew { ev, n } => {
                self.empty_slot(*ev)?;
                if *n > 0 {
                    self.closures.insert(op, (1, 1));
                    self.run_inner(idx, t, inner)?;
                }
                let name = event_name(self.str_seed, op);
                let pv = self.props(op, *n);
                *self.slot(*ev) = SlotM::Event(name, pv);
            }
            Op::AddEventFrom { slot, ev } => {
                let (name, pv) = match std::mem::replace(self.slot(*ev), SlotM::Gone) {
                    SlotM::Event(n, p) => (n, p),
                    other => {
                        *self.slot(*ev) = other;
                        return err("no prepared event in slot");
                    }
                };
                match slot {
                    Some(s) => {
                        let sp = self.use_span(*s, op)?;
                        if sp.recording {
                            for it in sp.items.iter().filter(|i| i.sampled) {
                                self.atts.push(ExpAtt {
                                    target: PRef::Node(sp.node),
                                    collect: it.collect,
                                    trace_id: self.collects[it.collect].trace_id,
                                    payload: Payload::Event {
                                        name: name.clone(),
                                        props: pv.clone(),
                                    },
                                    route: Route::Handle,
                                    thread: t,
                                    made_op: op,
                                    submit_op: op,
                                    from_set: None,
                                    scope_op: None,
                                });
                            }
                        }
                    }
                    None => {
                        let mut full = false;
                        if let Some(sc) = self.top_scope(t) {
                            if sc.sampled {
                                if sc.entries.len() >= QUEUE_CAP {
                                    full = true;
                                } else {
                                    let parent = sc.open.last().copied();
                                    sc.entries.push(Entry::Event {
                                        parent,
                                        name,
                                        props: pv,
                                        op,
                                    });
                                }
                            }
                        }
                        if full {
                            self.scope_limit_hits += 1;
                        }
                    }
                }
            }
            Op::HoldChild => {
                let task = match self.cur_task {
                    Some(t) if is_inner => t,
                    _ => return err("HoldChild only inside a poll body"),
                };
                let sp = match self.local_token(t) {
                    Some(items) => self.new_span(op, t, items, None, 0),
                    None => self.noop_span(op, t, 0),
                };
                if let SlotM::Task(tk) = self.slot(task) {
                    tk.held.push(sp);
                }
            }
            Op::LocalBurst { n } => {
                let str_seed = self.str_seed;
                let mut hit = false;
                let mut any = false;
                if let Some(sc) = self.top_scope(t) {
                    if sc.sampled {
                        let room = QUEUE_CAP.saturating_sub(sc.entries.len());
                        let k = (*n as usize).min(room);
                        hit = k < *n as usize;
                        let parent = sc.open.last().copied();
                        let name = span_name(str_seed, op);
                        for _ in 0..k {
                            sc.entries.push(Entry::Span {
                                node: op,
                                parent,
                                name: name.clone(),
                                props: vec![],
                                begin: op,
                                end: Some(op),
                            });
                        }
                        any = k > 0;
                    }
                }
                if hit {
                    self.scope_limit_hits += 1;
                }
                if any {
                    self.nodes.insert(op, (span_name(str_seed, op), true, t));
                    self.poll_nodes.push(op);
                }
            }
            Op::CycleBurst { .. } => {
                if is_inner {
                    return err("not inside a closure");
                }
            }
            Op::SpanBurst { slot, n } => {
                if is_inner {
                    return err("not inside a closure");
                }
                let p = self.use_span(*slot, op)?;
                if p.recording {
                    for _ in 0..*n {
                        let items: Vec<Item> = Model::issue(&p);
                        let sp = self.new_span(op, t, items, None, 0);
                        self.finish_span(sp, op);
                    }
                    self.poll_nodes.push(op);
                }
            }
            Op::ScopeBurst { slot, n } => {
                let sp = self.use_span(*slot, op)?;
                if sp.recording {
                    let room = STACK_CAP.saturating_sub(self.threads[t as usize].scopes.len());
                    if (*n as usize) > room {
                        self.stack_limit_hits += 1;
                    }
                }
            }
            Op::TeardownCalls { .. } => {
                if is_inner {
                    return err("not inside a closure");
                }
            }
            Op::Twin { f, slot, .. } => {
                if *f >= crate::corpus::NTWINS {
                    return err("no such twin");
                }
                let items = match slot {
                    Some(s) => {
                        let sp = self.use_span(*s, op)?;
                        if sp.recording {
                            Model::issue(&sp)
                        } else {
                            vec![]
                        }
                    }
                    None => vec![],
                };
                // the C15 oracle assumes no ambient local parent around a twin call
                if !self.threads[t as usize].scopes.is_empty() {
                    return err("twin call under an ambient scope");
                }
                self.twin_calls.push((op, items));
            }
            Op::NewTask { .. } | Op::Poll { .. } | Op::DropTask { .. } => {
                return self.apply_async(op, t, o, inner, idx, is_inner);
            }
        }
        Ok(())
    }

    fn apply_async(&mut self, op: OpRef, t: u8, o: &Op, inner: &[Op], idx: usize, is_inner: bool) -> R {
        if is_inner {
            // nested adapters: a poll body may poll another task (which then runs without a body
            // of its own); nothing else asynchronous happens inside closures or bodies
            match o {
                Op::Poll { task, .. } if inner.is_empty() && self.cur_task.is_some() && self.cur_task != Some(*task) => {}
                _ => return err("no async ops inside closures or poll bodies"),
            }
        }
        match o {
            Op::NewTask { task, wrap, span } => {
                self.empty_slot(*task)?;
                let needs_span = !matches!(wrap, Wrap::EnterOnPoll);
                if needs_span != span.is_some() {
                    return err("span / wrap mismatch");
                }
                let sp = match span {
                    Some(s) => match std::mem::replace(self.slot(*s), SlotM::Gone) {
                        SlotM::Span(sp) => Some(sp),
                        other => {
                            *self.slot(*s) = other;
                            return err("no live span for the task");
                        }
                    },
                    None => None,
                };
                let name = span_name(self.str_seed, op);
                self.nodes.insert(op, (name, true, t));
                *self.slot(*task) = SlotM::Task(TaskM {
                    wrap: wrap.clone(),
                    span: sp,
                    node: op,
                    done: false,
                    held: vec![],
                });
            }
            Op::Poll { task, kind, ready } => {
                let tk = match self.slot_ref(*task) {
                    SlotM::Task(tk) => tk.clone(),
                    _ => return err("no task in slot"),
                };
                if tk.done {
                    return err("task already completed");
                }
                let ok_kind = match tk.wrap {
                    Wrap::InSpan | Wrap::EnterOnPoll | Wrap::InSpanEnterOnPoll | Wrap::InSpanCatch => *kind == PollKind::Poll,
                    Wrap::Stream => matches!(kind, PollKind::PollNext | PollKind::PollNextItem),
                    Wrap::Sink => matches!(kind, PollKind::PollReady | PollKind::StartSend | PollKind::PollFlush | PollKind::PollClose | PollKind::PollCloseErr),
                };
                if !ok_kind {
                    return err("poll kind does not fit the task");
                }
                let depth = self.threads[t as usize].stack.len();
                // in_span: the span is the local parent during the call
                let mut guard_pushed = false;
                if let Some(sp) = &tk.span {
                    if sp.recording && self.threads[t as usize].scopes.len() < STACK_CAP {
                        let token = Model::issue(sp);
                        let sampled = token.iter().any(|i| i.sampled);
                        self.threads[t as usize].scopes.push(Scope {
                            token: Some(token),
                            sampled,
                            entries: vec![],
                            open: vec![],
                            open_op: op,
                            of_span: Some(sp.node),
                        });
                        self.threads[t as usize].stack.push(LH::Guard { real: true });
                    } else {
                        self.threads[t as usize].stack.push(LH::Guard { real: false });
                    }
                    guard_pushed = true;
                }
                // enter_on_poll: one local span per poll, named like the task
                let mut eop = false;
                if let Some(p) = inner.iter().position(|o| matches!(o, Op::BodyPanic)) {
                    if *ready || p + 1 != inner.len() {
                        return err("a body may panic only as its last step, without completing");
                    }
                }
                if matches!(tk.wrap, Wrap::EnterOnPoll | Wrap::InSpanEnterOnPoll | Wrap::InSpanCatch) {
                    let name = span_name(self.str_seed, tk.node);
                    let mut node = None;
                    if let Some(sc) = self.top_scope(t) {
                        if sc.sampled && sc.entries.len() < QUEUE_CAP {
                            let parent = sc.open.last().copied();
                            sc.entries.push(Entry::Span {
                                node: tk.node,
                                parent,
                                name,
                                props: vec![],
                                begin: op,
                                end: None,
                            });
                            sc.open.push(tk.node);
                            node = Some(tk.node);
                        }
                    }
                    self.threads[t as usize].stack.push(LH::LSpan { node, dead: false });
                    self.poll_nodes.push(tk.node);
                    eop = true;
                }
                let outer_task = self.cur_task;
                self.cur_task = Some(*task);
                let r = self.run_inner(idx, t, inner);
                self.cur_task = outer_task;
                r?;
                if eop {
                    self.pop_handle(t, op, None)?;
                }
                let completes = match kind {
                    PollKind::Poll | PollKind::PollNext | PollKind::PollNextItem | PollKind::PollClose | PollKind::PollCloseErr => *ready,
                    _ => false,
                };
                if guard_pushed {
                    // the scope of the call ends with the call: what it recorded is submitted,
                    // and only then (on completion) the span finishes
                    self.pop_handle(t, op, None)?;
                }
                if completes {
                    if let SlotM::Task(tkm) = self.slot(*task) {
                        tkm.done = true;
                        if let Some(sp) = tkm.span.take() {
                            self.finish_span(sp, op);
                        }
                    }
                    self.final_polls.push(op);
                }
                if self.threads[t as usize].stack.len() != depth {
                    return err("poll must be balanced");
                }
            }
            Op::DropTask { task } => {
                let tk = match std::mem::replace(self.slot(*task), SlotM::Gone) {
                    SlotM::Task(tk) => tk,
                    other => {
                        *self.slot(*task) = other;
                        return err("no task in slot");
                    }
                };
                // the wrapped future goes first (and with it the spans it holds), then the span
                for h in tk.held {
                    self.finish_span(h, op);
                }
                if let Some(sp) = tk.span {
                    self.finish_span(sp, op);
                }
            }
            _ => return err("not supported yet"),
        }
        Ok(())
    }
}
