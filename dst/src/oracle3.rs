//! Oracles C17 (detached local-span sets) and C18 (recorded times).

use std::collections::HashMap;

use crate::analysis::*;
use crate::exec::*;
use crate::model::*;
use crate::oracle::*;
use crate::prog::*;
use crate::sim;

fn reads_of_op(a: &Analysis, o: usize) -> Vec<u64> {
    a.hist
        .out
        .log
        .iter()
        .enumerate()
        .filter(|(i, e)| e.kind == sim::K_CLOCK && a.ev_op[*i] == o)
        .map(|(_, e)| e.a)
        .collect()
}

#[derive(Debug, Clone, PartialEq)]
struct NormRec {
    span_id: u64,
    /// None = top of the set (the parent it was pushed under)
    parent_id: Option<u64>,
    name: String,
    props: Vec<(String, String)>,
    events: Vec<(String, u64, Vec<(String, String)>)>,
    rel_begin: u64,
    dur: u64,
}

fn normalise(recs: &[&Rec], top_parent: u64) -> Vec<NormRec> {
    let min_begin = recs.iter().map(|r| r.begin).min().unwrap_or(0);
    let ids: Vec<u64> = recs.iter().map(|r| r.span_id).collect();
    let mut v: Vec<NormRec> = recs
        .iter()
        .map(|r| NormRec {
            span_id: r.span_id,
            parent_id: if !ids.contains(&r.parent_id) {
                let _ = top_parent;
                None
            } else {
                Some(r.parent_id)
            },
            name: r.name.clone(),
            props: r.props.clone(),
            events: r.events.iter().map(|e| (e.name.clone(), e.ts.wrapping_sub(min_begin), e.props.clone())).collect(),
            rel_begin: r.begin - min_begin,
            dur: r.dur,
        })
        .collect();
    v.sort_by_key(|n| n.span_id);
    v
}

pub fn c17(a: &Analysis, v: &mut Verdict) {
    let m = a.model;
    // group expectations of pushed sets: (set collect op) -> [(push op, collect) -> exp indices]
    let mut copies: HashMap<OpRef, HashMap<(OpRef, usize, PRef), Vec<usize>>> = HashMap::new();
    for (i, r) in m.recs.iter().enumerate() {
        if let Some(set) = r.from_set {
            // the top parent of a copy: the span it was pushed under
            let top = m
                .recs
                .iter()
                .filter(|x| x.from_set == Some(set) && x.submit_op == r.submit_op && x.collect == r.collect)
                .filter_map(|x| match x.parent {
                    PRef::Node(n) if !m.recs.iter().any(|y| y.from_set == Some(set) && y.node == n) => Some(PRef::Node(n)),
                    _ => None,
                })
                .next()
                .unwrap_or(PRef::Remote(0));
            copies.entry(set).or_default().entry((r.submit_op, r.collect, top)).or_default().push(i);
        }
    }
    let mut pushed_multi = 0u64;
    for (set, cps) in &copies {
        // nodes of the set and which of them are top-level
        let mut nodes: Vec<u32> = vec![];
        for (_, exps) in cps {
            for &e in exps {
                if !nodes.contains(&m.recs[e].node) {
                    nodes.push(m.recs[e].node);
                }
            }
        }
        // delivered copies: per (batch, trace): top-level records grouped by their parent id, plus
        // one instance of every inner record of that batch and trace (instances inside one batch
        // are identical: same set, same anchor)
        let mut delivered: Vec<(Vec<NormRec>, (usize, u64), u128)> = vec![];
        for (bi, b) in a.hist.batches.iter().enumerate() {
            let mut by_trace: HashMap<u128, Vec<&Rec>> = HashMap::new();
            for r in &b.recs {
                if let Some(n) = parse_node(&r.name, 'n') {
                    if nodes.contains(&n) {
                        by_trace.entry(r.trace_id).or_default().push(r);
                    }
                }
            }
            for (trace, recs) in by_trace {
                let ids: Vec<u64> = recs.iter().map(|r| r.span_id).collect();
                let mut tops: Vec<u64> = recs.iter().filter(|r| !ids.contains(&r.parent_id)).map(|r| r.parent_id).collect();
                tops.sort_unstable();
                tops.dedup();
                for top in tops {
                    let mut copy: Vec<&Rec> = vec![];
                    let mut seen: Vec<u64> = vec![];
                    for r in &recs {
                        let is_top = !ids.contains(&r.parent_id);
                        if (is_top && r.parent_id == top) || (!is_top && !seen.contains(&r.span_id)) {
                            if !is_top {
                                seen.push(r.span_id);
                            }
                            copy.push(r);
                        }
                    }
                    if copy.len() == nodes.len() {
                        delivered.push((normalise(&copy, top), (bi, top), trace));
                    }
                }
            }
        }
        if delivered.len() >= 2 {
            pushed_multi += 1;
        }
        for i in 1..delivered.len() {
            if delivered[i].0 != delivered[0].0 {
                if std::env::var("DST_DEBUG").is_ok() {
                    eprintln!("copy0 {:?}\ncopy{} {:?}", delivered[0], i, delivered[i]);
                }
                let (x, y) = (&delivered[0].0, &delivered[i].0);
                let what = if x.len() != y.len() {
                    "number of records"
                } else if x.iter().zip(y).any(|(p, q)| p.span_id != q.span_id) {
                    "span ids"
                } else if x.iter().zip(y).any(|(p, q)| p.parent_id != q.parent_id) {
                    "parent ids"
                } else if x.iter().zip(y).any(|(p, q)| p.dur != q.dur) {
                    "durations"
                } else if x.iter().zip(y).any(|(p, q)| p.rel_begin != q.rel_begin) {
                    "relative begin times"
                } else if x.iter().zip(y).any(|(p, q)| p.events != q.events) {
                    "events"
                } else if x.iter().zip(y).any(|(p, q)| p.props != q.props) {
                    "properties"
                } else {
                    "names"
                };
                v.add(
                    "C17",
                    "C17.identical",
                    format!(
                        "copies-differ:{}{}",
                        what.replace(' ', "-"),
                        // two copies inside one trace share their span ids: parked attachments of
                        // the set all land on the first copy (finding D8)
                        {
                            // traces that receive this set more than once (two pushes, or a push
                            // under a span with two parents in that trace)
                            let tainted = |k: usize| {
                                let n: usize = cps
                                    .iter()
                                    .filter(|((_, col, _), _)| m.collects[*col].trace_id == delivered[k].2)
                                    .map(|(_, exps)| {
                                        // copies inside one (push, collect) entry = expectations per node
                                        let first = m.recs[exps[0]].node;
                                        exps.iter().filter(|&&e| m.recs[e].node == first).count()
                                    })
                                    .sum();
                                n >= 2
                            };
                            if (tainted(0) || tainted(i)) && (what == "events" || what == "properties") {
                                ":same-trace-copies"
                            } else {
                                ""
                            }
                        }
                    ),
                    format!(
                        "the local-span set collected by op #{} was pushed under several parents but the delivered copies differ in their {} (batch {} under {:016x} vs batch {} under {:016x})",
                        outer(*set),
                        what,
                        delivered[0].1 .0,
                        delivered[0].1 .1,
                        delivered[i].1 .0,
                        delivered[i].1 .1
                    ),
                );
            }
        }
        // spans open at collection end exactly at the collection instant
        let creads = reads_of_op(a, outer(*set));
        for (_, exps) in cps {
            for &e in exps {
                let er = &m.recs[e];
                if !er.open_at_collect {
                    continue;
                }
                let breads = reads_of_op(a, outer(er.begin_op));
                for &d in &a.matched[e] {
                    let r = a.rec(&a.delivered[d]);
                    let ok = breads.iter().any(|s| creads.iter().any(|f| f.wrapping_sub(*s) == r.dur));
                    if !ok {
                        v.add(
                            "C17",
                            "C17.open",
                            "open-span-end".into(),
                            format!(
                                "local span n{} was still open when its set was collected (op #{}) but its duration {} is not collection time minus start time",
                                er.node,
                                outer(*set),
                                r.dur
                            ),
                        );
                    }
                }
            }
        }
    }
    // to_span_records(ctx) == what a push under a span with that context delivers
    for tr in &m.to_records {
        let o = outer(tr.op);
        if !a.op_executed(o) {
            continue;
        }
        let got: Vec<Rec> = match &a.hist.ops[o].ret {
            Ret::Records(r) => r.clone(),
            _ => continue,
        };
        // expected shape from the model
        let exp_spans: Vec<&Entry> = tr.entries.iter().filter(|e| matches!(e, Entry::Span { .. })).collect();
        if got.len() != exp_spans.len() {
            v.add(
                "C17",
                "C17.to_records",
                "count".into(),
                format!("to_span_records (op #{}) returned {} records, the set holds {} local spans", o, got.len(), exp_spans.len()),
            );
            continue;
        }
        let creads = reads_of_op(a, outer(tr.collect_op));
        for r in &got {
            if r.trace_id != tr.trace_id {
                v.add("C17", "C17.to_records", "trace".into(), format!("to_span_records (op #{}) produced a record in trace {:032x}", o, r.trace_id));
            }
            let node = parse_node(&r.name, 'n');
            let ent = exp_spans.iter().find(|e| matches!(e, Entry::Span { node: n, .. } if Some(*n) == node));
            let (parent, props, begin, end, name) = match ent {
                Some(Entry::Span {
                    parent,
                    props,
                    begin,
                    end,
                    name,
                    ..
                }) => (parent, props, begin, end, name),
                _ => {
                    v.add("C17", "C17.to_records", "foreign".into(), format!("to_span_records (op #{}) produced a record {} that is not in the set", o, r.name.chars().take(20).collect::<String>()));
                    continue;
                }
            };
            if &r.name != name {
                v.add("C17", "C17.to_records", "name".into(), format!("to_span_records (op #{}) altered a span name", o));
            }
            // parent: the given context for set roots, else the enclosing local span's id
            match parent {
                None => {
                    if r.parent_id != tr.parent {
                        v.add("C17", "C17.to_records", "top-parent".into(), format!("to_span_records (op #{}): a top-level span has parent {:016x}, expected the given context's span id {:016x}", o, r.parent_id, tr.parent));
                    }
                }
                Some(pn) => {
                    let pid = got.iter().find(|x| parse_node(&x.name, 'n') == Some(*pn)).map(|x| x.span_id);
                    if pid != Some(r.parent_id) {
                        v.add("C17", "C17.to_records", "inner-parent".into(), format!("to_span_records (op #{}): span n{} is not under its enclosing local span", o, node.unwrap_or(0)));
                    }
                }
            }
            // properties: creation/with_properties first, then local property entries under it
            let mut exp_props = props.clone();
            let mut exp_events: Vec<(String, Vec<(String, String)>)> = vec![];
            for e in &tr.entries {
                match e {
                    Entry::Props { parent: Some(p), props, .. } if Some(*p) == node => exp_props.extend(props.clone()),
                    Entry::Event { parent: Some(p), name, props, .. } if Some(*p) == node => exp_events.push((name.clone(), props.clone())),
                    _ => {}
                }
            }
            // properties and events arrive in recording order (one thread, one set)
            let mut got_props = r.props.clone();
            let mut ep = exp_props.clone();
            got_props.sort();
            ep.sort();
            if got_props != ep {
                v.add("C17", "C17.to_records", "props".into(), format!("to_span_records (op #{}): properties of n{} differ from what was recorded", o, node.unwrap_or(0)));
            }
            let ge: Vec<(String, Vec<(String, String)>)> = r.events.iter().map(|e| (e.name.clone(), e.props.clone())).collect();
            if ge != exp_events {
                v.add("C17", "C17.to_records", "events".into(), format!("to_span_records (op #{}): events of n{} differ from what was recorded", o, node.unwrap_or(0)));
            }
            // duration
            let breads = reads_of_op(a, outer(*begin));
            let ereads = match end {
                Some(e) => reads_of_op(a, outer(*e)),
                None => creads.clone(),
            };
            if !breads.iter().any(|s| ereads.iter().any(|f| f.wrapping_sub(*s) == r.dur)) {
                v.add("C17", "C17.to_records", "duration".into(), format!("to_span_records (op #{}): duration {} of n{} is not end minus start", o, r.dur, node.unwrap_or(0)));
            }
            // and equal to a delivered copy of the same set, if one exists (ids, durations)
            if let Some(cps) = copies.get(&tr.collect_op) {
                'outer: for (_, exps) in cps {
                    for &e in exps {
                        if Some(m.recs[e].node) == node {
                            if let Some(&d) = a.matched[e].first() {
                                let dr = a.rec(&a.delivered[d]);
                                if dr.span_id != r.span_id || dr.dur != r.dur {
                                    v.add("C17", "C17.to_records", "differs-from-push".into(), format!("to_span_records (op #{}): n{} has id/duration {:016x}/{} but the pushed copy was delivered with {:016x}/{}", o, node.unwrap_or(0), r.span_id, r.dur, dr.span_id, dr.dur));
                                }
                                break 'outer;
                            }
                        }
                    }
                }
            }
        }
    }
    v.probe("sets_pushed_to_several_parents", pushed_multi);
    v.probe("to_records_calls", m.to_records.len() as u64);
    v.trigger = pushed_multi > 0 || !m.to_records.is_empty();
}

pub fn c18(a: &Analysis, v: &mut Verdict) {
    let m = a.model;
    let log = &a.hist.out.log;
    // wall-clock window of the run
    let t_first = log.first().map(|e| e.t).unwrap_or(0).min(1_000_000);
    let t_last = log.last().map(|e| e.t).unwrap_or(0);
    let mut offs: Vec<i64> = vec![0];
    for e in log.iter() {
        if e.kind == sim::K_WALLSTEP {
            offs.push(e.b as i64);
        }
    }
    let (omin, omax) = (*offs.iter().min().unwrap(), *offs.iter().max().unwrap());
    // an anchor reads the wall clock and the monotonic clock one after the other (up to 500 ns
    // apart on the simulated clock): that much slack on both sides
    let win_lo = (sim::UNIX_BASE as i64 + omin + t_first as i64) as u64 - 1_000;
    let win_hi = (sim::UNIX_BASE as i64 + omax + t_last as i64) as u64 + 1_000;
    let mut reads_cache: HashMap<usize, Vec<u64>> = HashMap::new();
    let mut reads = |o: usize| -> Vec<u64> { reads_cache.entry(o).or_insert_with(|| reads_of_op(a, o)).clone() };
    let mut checked = 0u64;
    for (ei, er) in m.recs.iter().enumerate() {
        for &di in &a.matched[ei] {
            let r = a.rec(&a.delivered[di]);
            let (bo, eo) = (outer(er.begin_op), outer(er.end_op));
            if !a.op_executed(bo) || !a.op_executed(eo) {
                continue;
            }
            let br = reads(bo);
            let erd = reads(eo);
            checked += 1;
            let ok = br.iter().any(|s| erd.iter().any(|f| *f >= *s && f - s == r.dur));
            if !ok {
                v.add(
                    "C18",
                    "C18.duration",
                    format!("{}:{}", if er.local { "local" } else { "span" }, if er.open_at_collect { "open-at-collect" } else { "closed" }),
                    format!(
                        "record n{}: duration {} ns is not the monotonic time between its start (op #{}) and its finish (op #{})",
                        er.node, r.dur, bo, eo
                    ),
                );
            }
            // "each cycle uses its own clock anchor": the begin time is the span's monotonic start
            // translated with an anchor (wall clock and monotonic clock read one after the other)
            // taken inside the collector cycle that delivered the record
            {
                let b = &a.hist.batches[a.delivered[di].batch];
                if let Some(cy) = a.cycles.iter().find(|c| c.tid == b.tid && c.begin_step <= b.step && b.step <= c.end_step) {
                    let mut anchors: Vec<(u64, u64)> = vec![];
                    let mut pending: Option<u64> = None;
                    for e in log.iter() {
                        if e.tid as usize != cy.tid || e.step < cy.begin_step || e.step > b.step {
                            continue;
                        }
                        if e.kind == sim::K_UNIX {
                            pending = Some(e.a);
                        } else if e.kind == sim::K_CLOCK {
                            if let Some(u) = pending.take() {
                                anchors.push((u, e.a));
                            }
                        }
                    }
                    let fits = anchors.iter().any(|(u, mo)| br.iter().any(|s| (*u as i128 + *s as i128 - *mo as i128) == r.begin as i128));
                    v.probe("begin_times_checked_against_cycle_anchor", 1);
                    if !fits {
                        v.add(
                            "C18",
                            "C18.begin",
                            "not-this-cycles-anchor".into(),
                            format!(
                                "record n{}: begin time {} is not its monotonic start translated with a clock anchor taken in the collector cycle that delivered it ({} anchors in that cycle)",
                                er.node,
                                r.begin,
                                anchors.len()
                            ),
                        );
                    }
                }
            }
            if r.begin < win_lo || r.begin > win_hi {
                v.add(
                    "C18",
                    "C18.begin",
                    "outside-window".into(),
                    format!("record n{}: begin time {} lies outside the wall-clock window of the run [{}, {}]", er.node, r.begin, win_lo, win_hi),
                );
            }
        }
    }
    // nesting inside one delivered copy: group delivered local records by (batch, submit op, collect, scope/set)
    let mut groups: HashMap<(usize, OpRef, usize, Option<OpRef>, Option<OpRef>), Vec<(usize, usize)>> = HashMap::new();
    for (ei, er) in m.recs.iter().enumerate() {
        if !er.local {
            continue;
        }
        for &di in &a.matched[ei] {
            groups.entry((a.delivered[di].batch, er.submit_op, er.collect, er.scope_op, er.from_set)).or_default().push((ei, di));
        }
    }
    for (_, g) in groups {
        // by node: first delivered copy
        let mut by_node: HashMap<u32, &Rec> = HashMap::new();
        for (ei, di) in &g {
            by_node.entry(m.recs[*ei].node).or_insert_with(|| a.rec(&a.delivered[*di]));
        }
        for (ei, di) in &g {
            let er = &m.recs[*ei];
            let r = a.rec(&a.delivered[*di]);
            if let PRef::Node(p) = er.parent {
                if let Some(pr) = by_node.get(&p) {
                    if r.begin < pr.begin || r.begin + r.dur > pr.begin + pr.dur {
                        v.add(
                            "C18",
                            "C18.nesting",
                            "child-outside-parent".into(),
                            format!("local span n{} [{}, +{}] is not inside its enclosing local span n{} [{}, +{}]", er.node, r.begin, r.dur, p, pr.begin, pr.dur),
                        );
                    }
                }
            }
            // siblings: same parent within the group
            for (ej, dj) in &g {
                if ej == ei {
                    continue;
                }
                let es = &m.recs[*ej];
                if es.parent == er.parent && es.node > er.node {
                    let s = a.rec(&a.delivered[*dj]);
                    if s.begin < r.begin + r.dur && r.begin < s.begin + s.dur {
                        v.add(
                            "C18",
                            "C18.siblings",
                            "overlap".into(),
                            format!("sibling local spans n{} and n{} overlap in time", er.node, es.node),
                        );
                    }
                }
            }
            // events recorded in this local span
            for e in &r.events {
                if e.ts < r.begin || e.ts > r.begin + r.dur {
                    // only events recorded *inside* it (local route with this span as innermost)
                    let inside = m.atts.iter().any(|at| at.target == PRef::Node(er.node) && at.route == Route::Local && matches!(&at.payload, Payload::Event{name, ..} if name == &e.name));
                    if inside {
                        v.add(
                            "C18",
                            "C18.events",
                            "event-outside-span".into(),
                            format!("event {} has a timestamp outside the interval of local span n{} it was recorded in", e.name.chars().take(16).collect::<String>(), er.node),
                        );
                    }
                }
            }
        }
    }
    // elapsed()
    for (o, out) in a.hist.ops.iter().enumerate() {
        if !out.executed {
            continue;
        }
        if let (Ret::Elapsed(g), Some(ExpRet::Elapsed(e))) = (&out.ret, m.rets.get(&node_id(o, None))) {
            match (g, e) {
                (None, None) => {}
                (Some(d), Some(b)) => {
                    let br = reads(outer(*b));
                    let er = reads(o);
                    if !br.iter().any(|s| er.iter().any(|f| *f >= *s && f - s == *d)) {
                        v.add("C18", "C18.elapsed", "wrong-elapsed".into(), format!("elapsed() (op #{}) returned {} ns, not the monotonic time since the span started (op #{})", o, d, outer(*b)));
                    }
                }
                (g, _) => v.add("C18", "C18.elapsed", "presence".into(), format!("elapsed() (op #{}) returned {:?}", o, g)),
            }
        }
    }
    v.probe("durations_checked", checked);
    v.probe("wall_clock_steps", a.hist.out.log.iter().filter(|e| e.kind == sim::K_WALLSTEP).count() as u64);
    let advanced = a.case.ops.iter().any(|r| matches!(r.op, Op::Advance { .. }));
    v.trigger = advanced && checked > 0 && a.hist.out.cycles >= 2;
}

// ---------------------------------------------------------------------------------------------
// C13 / C14: future, stream and sink adapters

pub fn c13(a: &Analysis, v: &mut Verdict, prop: &str) {
    let m = a.model;
    // (a) the adapter's span is the local parent inside every call and the previous context is
    // back afterwards: every context probe (inside poll bodies and between polls) equals the model
    crate::oracle2::check_ctx_returns_pub(a, v, prop);
    crate::oracle2::no_spurious_pub(a, v, prop);
    // (b) what the last call recorded belongs to the delivered trace: presence (default config:
    // by the next flush; cancelable: in the root's report call), attachments included
    crate::oracle2::presence_pub(a, v, prop, &format!("{}.trace", prop));
    crate::oracle2::c03_core(a, v, prop, true);
    crate::oracle2::check_attachments(a, v, prop, &format!("{}.attach", prop), true, &|_| true);
    // (c) the span finishes exactly when the task completes or is dropped
    let mut task_spans = 0u64;
    for (ei, er) in m.recs.iter().enumerate() {
        let eo = outer(er.end_op);
        let is_task_end = matches!(a.case.ops.get(eo).map(|r| &r.op), Some(Op::Poll { .. }) | Some(Op::DropTask { .. }));
        if er.local || !is_task_end {
            continue;
        }
        task_spans += 1;
        let br = reads_of_op(a, outer(er.begin_op));
        let erd = reads_of_op(a, eo);
        for &di in &a.matched[ei] {
            let r = a.rec(&a.delivered[di]);
            if !br.iter().any(|s| erd.iter().any(|f| *f >= *s && f - s == r.dur)) {
                v.add(
                    prop,
                    &format!("{}.finish", prop),
                    "span-not-finished-at-completion".into(),
                    format!(
                        "span n{} bound to a task has duration {} ns, which does not end inside the call that completed or dropped the task (op #{})",
                        er.node, r.dur, eo
                    ),
                );
            }
        }
    }
    // a completed task whose span is kept alive must still deliver the span by the next flush:
    // covered by presence (the model finishes the span at the completing call)
    // (d) enter_on_poll: exactly one local span per poll
    for &pn in &m.poll_nodes {
        let exps: Vec<usize> = m.recs.iter().enumerate().filter(|(_, r)| r.node == pn).map(|(i, _)| i).collect();
        let flushes: Vec<usize> = a
            .case
            .ops
            .iter()
            .enumerate()
            .filter(|(f, r)| matches!(r.op, Op::Flush) && a.op_executed(*f))
            .map(|(f, _)| f)
            .collect();
        if let Some(&f) = flushes.last() {
            let due = exps.iter().filter(|&&i| crate::oracle2::expect_delivered_by(a, i, f)).count();
            let got_by: usize = exps
                .iter()
                .map(|&i| a.matched[i].iter().filter(|&&d| a.hist.batches[a.delivered[d].batch].step <= a.hist.ops[f].end_step).count())
                .sum();
            let inverted = exps.iter().any(|&i| a.inversion(m.recs[i].collect).0);
            if got_by < due && !inverted {
                v.add(
                    prop,
                    &format!("{}.per-poll", prop),
                    "fewer-spans-than-polls".into(),
                    format!("enter_on_poll adapter n{}: {} polls under a sampled local parent must each have delivered one span by flush #{}, {} arrived", pn, due, f, got_by),
                );
            }
        }
        // more than expected is caught by no_spurious (duplicates)
    }
    // the per-poll span covers everything recorded in that poll
    for d in &a.delivered {
        let e = match d.exp {
            Some(e) => e,
            None => continue,
        };
        let er = &m.recs[e];
        if let PRef::Node(p) = er.parent {
            if m.poll_nodes.contains(&p) && er.local {
                let r = a.rec(d);
                if let Some(pr) = a.hist.batches[d.batch].recs.iter().find(|x| x.span_id == r.parent_id && x.trace_id == r.trace_id) {
                    if r.begin < pr.begin || r.begin + r.dur > pr.begin + pr.dur {
                        v.add(
                            prop,
                            &format!("{}.per-poll", prop),
                            "poll-span-does-not-cover".into(),
                            format!("local span n{} recorded during a poll is not inside that poll's enter_on_poll span", er.node),
                        );
                    }
                }
            }
        }
    }
    // probes / trigger
    let mut migrated = 0u64;
    let mut by_task: HashMap<Slot, Vec<u8>> = HashMap::new();
    for r in &a.case.ops {
        if let Op::Poll { task, .. } = r.op {
            let l = by_task.entry(task).or_default();
            if !l.contains(&r.t) {
                l.push(r.t);
            }
        }
    }
    for (_, l) in &by_task {
        if l.len() > 1 {
            migrated += 1;
        }
    }
    // a cycle ran between the first and the last command of a completing call
    let mut cycle_inside_final = 0u64;
    for fp in &m.final_polls {
        let o = outer(*fp);
        if !a.op_executed(o) {
            continue;
        }
        let (s, e) = (a.hist.ops[o].start_step, a.hist.ops[o].end_step);
        if a.cycles.iter().any(|c| c.begin_step > s && c.end_step < e) {
            cycle_inside_final += 1;
        }
    }
    v.probe("poll_migrated_thread", migrated);
    v.probe("cycle_inside_final_call", cycle_inside_final);
    v.probe("task_spans_delivered", task_spans);
    v.probe("final_calls", m.final_polls.len() as u64);
    let dropped_before = a.case.ops.iter().filter(|r| matches!(r.op, Op::DropTask { .. })).count() as u64;
    v.probe("task_dropped", dropped_before);
    v.trigger = cycle_inside_final > 0 || migrated > 0;
}

// ---------------------------------------------------------------------------------------------
// C07: tracing calls never panic, block or deadlock the host
// (deadlocks and step-cap livelocks are reported by `evaluate` before any oracle runs; process
// aborts are attributed by the driver)

pub fn c07(a: &Analysis, v: &mut Verdict) {
    let mut reentrant = 0u64;
    for (o, out) in a.hist.ops.iter().enumerate() {
        if !out.executed {
            continue;
        }
        if !a.case.ops[o].inner.is_empty() && !matches!(a.case.ops[o].op, Op::Poll { .. }) {
            reentrant += 1;
        }
        if let Some(msg) = &out.panic {
            if msg.starts_with("harness:") {
                continue;
            }
            let kind = op_kind(a, o);
            let class = if msg.contains("already borrowed") || msg.contains("already mutably borrowed") {
                "reentrant-borrow"
            } else if msg.contains("index out of bounds") {
                "index-out-of-bounds"
            } else if msg.contains("unwrap") {
                "unwrap"
            } else {
                "panic"
            };
            v.add(
                "C07",
                "C07.panic",
                format!("{}:{}", kind, class),
                format!("public tracing call panicked in op {}{}: {}", a.describe_op(o), if a.case.ops[o].inner.is_empty() { "" } else { " (with re-entrant calls in its closure)" }, msg.chars().take(160).collect::<String>()),
            );
        }
    }
    // a library thread (background collector, flush helper) that died of a panic
    for (tid, msg) in &a.hist.out.panics {
        let role = a.hist.out.roles.get(*tid).copied();
        if matches!(role, Some(sim::Role::Collector) | Some(sim::Role::FlushHelper)) {
            v.add(
                "C07",
                "C07.panic",
                format!("{:?}-thread-panicked", role.unwrap()),
                format!("the {:?} thread died of a panic: {}", role.unwrap(), msg.chars().take(160).collect::<String>()),
            );
        }
    }
    for p in &a.hist.teardown_panics {
        v.add("C07", "C07.teardown", "panic-in-teardown".into(), format!("a tracing call made while the thread's local storage was being torn down panicked: {}", p.chars().take(160).collect::<String>()));
    }
    blocking_clause(a, v, "C07");
    let teardown = a.case.ops.iter().filter(|r| matches!(r.op, Op::TeardownCalls { .. })).count() as u64;
    v.probe("reentrant_closures", reentrant);
    v.probe("tls_teardown_call", teardown);
    v.probe("empty_token_ctx_probe", a.model.empty_token_ctx.len() as u64);
    v.probe("scope_limit_hit", a.model.scope_limit_hits as u64);
    v.probe("stack_limit_hit", a.model.stack_limit_hits as u64);
    v.trigger = reentrant > 0 || teardown > 0 || !a.model.empty_token_ctx.is_empty() || a.any_full;
}

/// no call other than flush() waits for the collector (C07, C09)
pub fn blocking_clause(a: &Analysis, v: &mut Verdict, prop: &str) {
    let log = &a.hist.out.log;
    for (i, e) in log.iter().enumerate() {
        if e.kind != sim::K_LOCK_WAIT && e.kind != sim::K_JOIN_WAIT {
            continue;
        }
        let o = a.ev_op[i];
        if o == usize::MAX {
            continue;
        }
        let tid = e.tid as usize;
        if a.hist.ops[o].tid != tid {
            continue; // a helper thread (flush helper) waiting, not the caller
        }
        let exempt = matches!(
            a.case.ops[o].op,
            Op::Flush | Op::Cycle | Op::Stats | Op::Join { .. } | Op::Spawn { .. } | Op::SetReporter { .. } | Op::ReplaceReporter { .. } | Op::CycleBurst { .. } | Op::ThreadEnd
        );
        if exempt {
            continue;
        }
        if e.kind == sim::K_LOCK_WAIT {
            // the thread's very first command registers its queue under the receiver-list lock:
            // a hand-over wait behind a drain in progress, not waiting for a cycle
            let registers = a.events_of_op(o).any(|(_, x)| x.kind == fastrace::verif::P_REGISTER && x.tid as usize == tid);
            // ... but only behind the drain itself: if the lock's owner has already left the
            // drain (its last event is the end of the cycle's processing, the report call or a
            // sleep inside it), the caller is waiting for the reporter
            let owner = e.b as u16;
            let owner_last = log[..i].iter().rev().find(|x| x.tid == owner).map(|x| x.kind);
            let behind_reporter = matches!(owner_last, Some(k) if k == fastrace::verif::P_CYCLE_END || k == sim::K_REPORT || k == sim::K_STALL || k == sim::K_SLEEP);
            if registers && !behind_reporter {
                v.probe("first_call_lock_handover", 1);
                continue;
            }
            if registers && behind_reporter {
                v.add(
                    prop,
                    &format!("{}.block", prop),
                    format!("{}:registration-behind-reporter", op_kind(a, o)),
                    format!("op {} (the thread's first tracing call) had to wait until the collector's report() call returned", a.describe_op(o)),
                );
                continue;
            }
        }
        v.add(
            prop,
            &format!("{}.block", prop),
            format!("{}:{}", op_kind(a, o), if e.kind == sim::K_LOCK_WAIT { "lock" } else { "join" }),
            format!("op {} had to wait for {} held by the collector side", a.describe_op(o), if e.kind == sim::K_LOCK_WAIT { "a lock" } else { "a thread" }),
        );
    }
}


// ---------------------------------------------------------------------------------------------
// C09: overload degrades by omission only

pub fn c09(a: &Analysis, v: &mut Verdict) {
    let m = a.model;
    let log = &a.hist.out.log;
    let _ = log;
    // return: calls never wait for the collector, never panic
    blocking_clause(a, v, "C09");
    for (o, out) in a.hist.ops.iter().enumerate() {
        if let Some(msg) = &out.panic {
            if !msg.starts_with("harness:") {
                v.add("C09", "C09.return", format!("{}:panic", op_kind(a, o)), format!("op {} panicked under overload: {}", a.describe_op(o), msg.chars().take(120).collect::<String>()));
            }
        }
    }
    // omit + correct: delivered is a subset of what was recorded (right trace, right parent, no
    // duplicates); what was recorded minus the permitted omissions is delivered; attachments that
    // are present sit on the right span, unaltered
    crate::oracle2::no_spurious_pub(a, v, "C09");
    crate::oracle2::presence_pub(a, v, "C09", "C09.omit");
    crate::oracle2::check_attachments(a, v, "C09", "C09.attach", false, &|_| true);
    // cancel still wins under overload
    for (c, col) in m.collects.iter().enumerate() {
        if col.cancelable && !col.cancels.is_empty() {
            let delivered = a.delivered.iter().any(|d| d.exp.map(|e| m.recs[e].collect == c).unwrap_or(false));
            let lost_at_exit = a
                .collect_ids
                .get(&c)
                .map(|id| a.cmds.iter().any(|x| x.kind == 1 && x.collect == *id && x.lost && x.force && x.parked))
                .unwrap_or(false);
            if delivered && !lost_at_exit && !a.inversion(c).0 {
                v.add(
                    "C09",
                    "C09.signals",
                    format!("cancel-ineffective:{}", if a.inversion(c).1 { "ring-reordered" } else { "in-order" }),
                    format!("trace {:032x} was cancelled under overload but records of it were delivered", col.trace_id),
                );
            }
        }
    }
    // signals (white box): per thread, finish/cancel commands are consumed in the order they were
    // issued, and none disappears while its thread lives
    let mut by_tid: HashMap<usize, Vec<usize>> = HashMap::new();
    for (i, c) in a.cmds.iter().enumerate() {
        // finish and cancel signals, however they were sent
        if c.kind == 1 || c.kind == 2 {
            by_tid.entry(c.tid).or_default().push(i);
        }
    }
    let mut parked_signals = 0u64;
    for (tid, list) in &by_tid {
        let mut last: Option<usize> = None;
        for &ci in list {
            let c = &a.cmds[ci];
            if c.parked {
                parked_signals += 1;
            }
            match c.consumed_at {
                Some(at) => {
                    if let Some(prev) = last {
                        if at < prev {
                            v.add(
                                "C09",
                                "C09.signals",
                                "reordered".into(),
                                format!(
                                    "thread {}: a {} signal (collect {}) issued later was consumed before an earlier finish/cancel signal",
                                    tid,
                                    if c.kind == 2 { "finish" } else { "cancel" },
                                    c.collect
                                ),
                            );
                        }
                    }
                    last = Some(last.map(|p| p.max(at)).unwrap_or(at));
                }
                None => {
                    // never consumed: fine only if it was lost in the exit flush with the ring still
                    // full, or no cycle drained the ring after it entered / after it was parked
                    if c.lost && c.parked && c.force {
                        continue;
                    }
                    if c.lost && !c.parked {
                        // given up on a full ring instead of being parked
                        v.add(
                            "C09",
                            "C09.signals",
                            "dropped-not-parked".into(),
                            format!("thread {}: a {} signal (collect {}) was dropped because the ring was full instead of being kept", tid, if c.kind == 2 { "finish" } else { "cancel" }, c.collect),
                        );
                        continue;
                    }
                    let since = c.entered.map(|li| log[li].step).unwrap_or_else(|| log[c.log_idx].step);
                    let drained_later = a.cycles.iter().any(|cy| cy.drain_end.get(tid).map(|&d| d > since).unwrap_or(false) && cy.end_step != u32::MAX);
                    let thread_alive_at_end = !log.iter().any(|e| e.kind == sim::K_THREAD_FIN && e.a == *tid as u64);
                    if c.entered.is_some() && drained_later {
                        v.add(
                            "C09",
                            "C09.signals",
                            "dropped".into(),
                            format!("thread {}: a {} signal (collect {}) entered the ring but was never consumed", tid, if c.kind == 2 { "finish" } else { "cancel" }, c.collect),
                        );
                    } else if c.entered.is_none() && !c.parked && !thread_alive_at_end {
                        v.add(
                            "C09",
                            "C09.signals",
                            "dropped-not-parked".into(),
                            format!("thread {}: a {} signal (collect {}) was neither queued nor parked", tid, if c.kind == 2 { "finish" } else { "cancel" }, c.collect),
                        );
                    }
                }
            }
        }
    }
    // scope limits: the recorded part of a burst is delivered in full (exact count)
    for (o, rec) in a.case.ops.iter().enumerate() {
        if let Op::LocalBurst { .. } = rec.op {
            let node = node_id(o, None);
            let exps: Vec<usize> = m.recs.iter().enumerate().filter(|(_, r)| r.node == node).map(|(i, _)| i).collect();
            if exps.is_empty() {
                continue;
            }
            let flushes: Vec<usize> = a.case.ops.iter().enumerate().filter(|(f, r)| matches!(r.op, Op::Flush) && a.op_executed(*f)).map(|(f, _)| f).collect();
            if let Some(&f) = flushes.last() {
                let due = exps.iter().filter(|&&i| crate::oracle2::expect_delivered_by(a, i, f)).count();
                let got: usize = exps.iter().map(|&i| a.matched[i].len()).sum();
                if got < due {
                    v.add(
                        "C09",
                        "C09.limit",
                        "burst-short".into(),
                        format!("a scope recorded {} local spans up to its limit (op #{}), only {} were delivered", due, o, got),
                    );
                }
            }
        }
    }
    v.probe("parked_signals", parked_signals);
    v.probe("scope_limit_hit", m.scope_limit_hits as u64);
    v.probe("stack_limit_hit", m.stack_limit_hits as u64);
    // trigger: a Full push or a limit hit, followed by a later delivered record (recovery)
    v.trigger = a.any_full || m.scope_limit_hits > 0 || m.stack_limit_hits > 0;
}

// ---------------------------------------------------------------------------------------------
// C15: #[trace] changes nothing but adds exactly one span per call (fixed corpus, see corpus.rs)

fn strip_closure(p: &str) -> String {
    p.strip_suffix("::{{closure}}").unwrap_or(p).to_string()
}

fn exp_name(e: &crate::corpus::ExpSpan, traced: &crate::corpus::Outcome) -> Option<String> {
    match &e.name {
        crate::corpus::NameRule::Fixed(n) => Some(n.to_string()),
        crate::corpus::NameRule::BodyPath => traced.body_path.as_ref().map(|p| if e.is_async { strip_closure(p) } else { p.clone() }),
    }
}

fn is_twin_record(r: &Rec) -> bool {
    parse_node(&r.name, 'n').is_none() && !r.name.starts_with('x')
}

pub fn c15(a: &Analysis, v: &mut Verdict) {
    let m = a.model;
    let mut async_pending = 0u64;
    let mut unwinding = 0u64;
    // all delivered twin records
    let twin_recs: Vec<&Rec> = a.hist.batches.iter().flat_map(|b| b.recs.iter()).filter(|r| is_twin_record(r)).collect();
    let mut used = vec![false; twin_recs.len()];
    let last_flush = a.case.ops.iter().enumerate().filter(|(f, r)| matches!(r.op, Op::Flush) && a.op_executed(*f)).map(|(f, _)| f).last();
    for (op, items) in &m.twin_calls {
        let o = outer(*op);
        if !a.op_executed(o) {
            continue;
        }
        let (f, arg) = match a.case.ops[o].op {
            Op::Twin { f, arg, .. } => (f, arg),
            _ => continue,
        };
        let tr = match &a.hist.ops[o].ret {
            Ret::Twin(t) => t,
            _ => {
                if let Some(p) = &a.hist.ops[o].panic {
                    v.add("C15", "C15.differential", "harness-panic".into(), format!("twin {} escaped with a panic: {}", f, p));
                }
                continue;
            }
        };
        // ---- differential: same value, same side effects in the same order, same unwinding
        if tr.plain.ret != tr.traced.ret {
            let kind = match (&tr.plain.ret, &tr.traced.ret) {
                (Ok(_), Ok(_)) => "return-value",
                (Err(_), Err(_)) => "panic-payload",
                _ => "panics-differently",
            };
            v.add("C15", "C15.differential", format!("twin{}:{}", f, kind), format!("twin {} arg {}: plain -> {:?}, #[trace] -> {:?}", f, arg, tr.plain.ret, tr.traced.ret));
        }
        if tr.plain.log != tr.traced.log {
            v.add(
                "C15",
                "C15.differential",
                format!("twin{}:side-effects", f),
                format!("twin {} arg {}: side-effect logs differ: plain {:?} vs #[trace] {:?}", f, arg, tr.plain.log, tr.traced.log),
            );
        }
        if tr.plain.polls != tr.traced.polls {
            v.add("C15", "C15.differential", format!("twin{}:polls", f), format!("twin {} arg {}: the traced future needed {} polls, the plain one {}", f, arg, tr.traced.polls, tr.plain.polls));
        }
        if tr.traced.polls > 1 {
            async_pending += 1;
        }
        if tr.traced.ret.is_err() || tr.traced.dropped_early {
            unwinding += 1;
        }
        // ---- the spans of the call
        let e = crate::corpus::expected(f, arg);
        let sampled_items: Vec<&Item> = items.iter().filter(|i| i.sampled).collect();
        // inside the traced call the local parent is the span of the slot
        match (&tr.parent_ctx, items.first()) {
            (None, None) => {}
            (Some(c), Some(it)) => {
                if c.0 != m.collects[it.collect].trace_id || c.2 != it.sampled {
                    v.add("C15", "C15.parent", "ctx".into(), format!("twin {}: the traced call saw local parent {:?}", f, c));
                }
            }
            (x, y) => v.add("C15", "C15.parent", "ctx-presence".into(), format!("twin {}: local parent seen {:?}, token {:?}", f, x, y.map(|i| i.collect))),
        }
        let demanded = !sampled_items.is_empty()
            && last_flush.map(|fl| a.hb.before(o, fl)).unwrap_or(false)
            && !a.lost_submit_ops.contains(&o)
            && !a.case.sched.ring_cap != 0;
        for it in sampled_items {
            let trace = m.collects[it.collect].trace_id;
            if a.collect_ids.get(&it.collect).map(|id| a.lost_starts.contains(id)).unwrap_or(false) {
                continue;
            }
            let pid = match a.parent_id(&it.parent) {
                Some(p) => p,
                None => continue,
            };
            // match the expected tree under (trace, pid)
            match_tree(a, v, f, arg, &e, tr, trace, pid, &twin_recs, &mut used, demanded, 0);
            // the follow-up call made in the same scope hangs under the same local parent
            let fu = crate::corpus::expected(1, arg);
            let fake = TwinRet {
                plain: tr.followup.clone(),
                traced: tr.followup.clone(),
                parent_ctx: tr.parent_ctx,
                followup: tr.followup.clone(),
            };
            match_tree(a, v, 100 + f, arg, &fu, &fake, trace, pid, &twin_recs, &mut used, demanded, 0);
        }
    }
    // nothing else: every delivered twin record belongs to some call's expected tree
    for (i, r) in twin_recs.iter().enumerate() {
        if !used[i] {
            v.add(
                "C15",
                "C15.exactly-one",
                "extra-span".into(),
                format!("a span named {:?} (trace {:032x}, parent {:016x}) was delivered that no #[trace] call under a sampled local parent accounts for", r.name, r.trace_id, r.parent_id),
            );
        }
    }
    v.probe("twin_calls", m.twin_calls.len() as u64);
    v.probe("async_twin_with_pending", async_pending);
    v.probe("twin_unwinding_or_dropped", unwinding);
    v.trigger = async_pending > 0 || unwinding > 0;
}

#[allow(clippy::too_many_arguments)]
fn match_tree(
    a: &Analysis,
    v: &mut Verdict,
    f: u8,
    arg: u32,
    e: &crate::corpus::ExpSpan,
    tr: &TwinRet,
    trace: u128,
    pid: u64,
    recs: &[&Rec],
    used: &mut Vec<bool>,
    demanded: bool,
    depth: usize,
) {
    let name = match exp_name(e, &tr.traced) {
        Some(n) => n,
        None => return, // the body never ran (dropped before the first poll): nothing to name
    };
    let want = if e.per_poll { tr.traced.polls as usize } else { 1 };
    // candidates: same trace, same parent, same name
    let mut found: Vec<usize> = vec![];
    for (i, r) in recs.iter().enumerate() {
        if !used[i] && r.trace_id == trace && r.parent_id == pid && r.name == name {
            if r.props == e.props {
                found.push(i);
                if found.len() == want {
                    break;
                }
            }
        }
    }
    if found.len() < want {
        // same place and name but other properties?
        let near = recs.iter().enumerate().find(|(i, r)| !used[*i] && r.trace_id == trace && r.parent_id == pid && r.name == name);
        if let Some((_, r)) = near {
            v.add(
                "C15",
                "C15.properties",
                format!("twin{}:properties", f),
                format!("twin {} arg {}: span {:?} carries properties {:?}, expected {:?}", f, arg, name, r.props, e.props),
            );
            return;
        }
        let elsewhere = recs.iter().enumerate().any(|(i, r)| !used[i] && r.trace_id == trace && r.name == name && r.props == e.props);
        let renamed = depth == 0 && recs.iter().enumerate().any(|(i, r)| !used[i] && r.trace_id == trace && r.parent_id == pid && r.props == e.props && r.name != name);
        if elsewhere {
            v.add("C15", "C15.parent", format!("twin{}:wrong-parent", f), format!("twin {} arg {}: span {:?} was delivered under another parent than the caller's local parent {:016x}", f, arg, name, pid));
        } else if renamed {
            v.add("C15", "C15.name", format!("twin{}:name", f), format!("twin {} arg {}: expected a span named {:?} under {:016x}, found one with another name", f, arg, name, pid));
        } else if demanded {
            v.add(
                "C15",
                "C15.exactly-one",
                format!("twin{}:missing:{}", f, if e.per_poll { "per-poll" } else { "span" }),
                format!("twin {} arg {}: {} span(s) named {:?} expected under {:016x} in trace {:032x}, {} delivered", f, arg, want, name, pid, trace, found.len()),
            );
        }
        for &i in &found {
            used[i] = true;
        }
        return;
    }
    for &i in &found {
        used[i] = true;
    }
    // children hang under (the first instance of) this span
    let me = recs[found[0]].span_id;
    for c in &e.children {
        match_tree(a, v, f, arg, c, tr, trace, me, recs, used, demanded, depth + 1);
    }
}
