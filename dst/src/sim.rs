//! The simulator: real OS threads, exactly one runs at a time, every choice comes from the case.
//!
//! A simulated thread is finished only after a watcher has join()ed its OS thread, i.e. after all
//! of its thread-local destructors ran (they are part of what is simulated).

use std::collections::HashMap;
use std::sync::{Arc, Condvar, Mutex, MutexGuard, OnceLock};
use std::time::Duration;

use fastrace::verif as fv;
use serde::{Deserialize, Serialize};

// harness event kinds (library kinds are fv::P_*, all < 100)
pub const K_YIELD: u32 = 100;
pub const K_OP_BEGIN: u32 = 101;
pub const K_OP_END: u32 = 102;
pub const K_CLOCK: u32 = 103;
pub const K_REPORT: u32 = 104;
pub const K_SPAWN: u32 = 105;
pub const K_THREAD_FIN: u32 = 106;
pub const K_STALL: u32 = 107;
pub const K_WALLSTEP: u32 = 108;
pub const K_SLEEP: u32 = 109;
pub const K_LOCK_WAIT: u32 = 110;
pub const K_JOIN_WAIT: u32 = 111;
pub const K_OP_WAIT: u32 = 112;
pub const K_CLOSURE: u32 = 113;
pub const K_SUBOP_BEGIN: u32 = 114;
pub const K_SUBOP_END: u32 = 115;
pub const K_UNIX: u32 = 116;
pub const K_FLUSH_RET: u32 = 117;
pub const K_THREAD_PANIC: u32 = 118;


pub use crate::simcfg::*;

#[derive(Clone, Copy, PartialEq, Eq, Debug)]
pub enum Role {
    Main,
    Caller,
    Collector,
    FlushHelper,
}

#[derive(Clone, Copy, PartialEq, Debug)]
enum Status {
    Runnable,
    BlockedLock(usize),
    BlockedJoin(usize),
    BlockedOp(usize),
    Sleeping(u64),
    Finished,
}

struct Th {
    panicked: bool,
    status: Status,
    cv: Arc<Condvar>,
    role: Role,
    prio: u64,
    started: bool,
}

#[derive(Clone, Copy, Debug, Serialize, Deserialize, PartialEq, Eq)]
pub struct Ev {
    pub step: u32,
    pub tid: u16,
    pub kind: u32,
    pub a: u64,
    pub b: u64,
    pub t: u64,
}

#[derive(Clone, Debug, PartialEq, Eq)]
pub enum Hard {
    Deadlock(String),
    StepCap,
}

pub struct St {
    threads: Vec<Th>,
    cur: usize,
    rng: u64,
    clock_rng: u64,
    pub clock: u64,
    pub wall_offset: i64,
    pub step: u64,
    pub switches: u64,
    pub log: Vec<Ev>,
    pub decisions: Vec<u16>,
    /// hash over (role, point kind) at each decision with >= 2 candidates
    pub dtrace: u64,
    explicit_pos: usize,
    locks: HashMap<usize, usize>,
    lock_names: Vec<usize>,
    os2tid: HashMap<u64, usize>,
    pub shutting_down: bool,
    all_done: bool,
    pub hard: Option<Hard>,
    cfg: SchedCfg,
    in_cycle: Option<usize>,
    pub cycles: u32,
    collector_sleeps: u32,
    no_yield: Option<usize>,
    pct_changes: Vec<u64>,
    op_done: Vec<bool>,
    /// receivers in registration order: owner tid
    pub rx_owner: Vec<usize>,
    rx_closed_in_pass: Vec<usize>,
    pub panics: Vec<(usize, String)>,
    last_kind: u32,
    pub stall_windows: Vec<(u64, u64)>,
}

pub struct Sim {
    m: Mutex<Option<St>>,
    done: Condvar,
}

static SIM: OnceLock<Sim> = OnceLock::new();

fn sim() -> &'static Sim {
    SIM.get_or_init(|| Sim {
        m: Mutex::new(None),
        done: Condvar::new(),
    })
}

pub struct StGuard(MutexGuard<'static, Option<St>>);
impl std::ops::Deref for StGuard {
    type Target = St;
    fn deref(&self) -> &St {
        self.0.as_ref().expect("no run in progress")
    }
}
impl std::ops::DerefMut for StGuard {
    fn deref_mut(&mut self) -> &mut St {
        self.0.as_mut().expect("no run in progress")
    }
}

pub fn lock_st() -> StGuard {
    StGuard(match sim().m.lock() {
        Ok(g) => g,
        Err(p) => p.into_inner(),
    })
}

struct SimExit;

fn xorshift(x: &mut u64) -> u64 {
    *x ^= *x << 13;
    *x ^= *x >> 7;
    *x ^= *x << 17;
    *x
}


fn os_self() -> u64 {
    unsafe { libc::pthread_self() as u64 }
}

impl St {
    fn me(&self) -> usize {
        *self
            .os2tid
            .get(&os_self())
            .expect("hook called from a thread the simulator does not know")
    }

    pub fn push_ev(&mut self, tid: usize, kind: u32, a: u64, b: u64) {
        let ev = Ev {
            step: self.step as u32,
            tid: tid as u16,
            kind,
            a,
            b,
            t: self.clock,
        };
        self.log.push(ev);
    }

    fn wake_sleepers(&mut self) {
        let clock = self.clock;
        for t in self.threads.iter_mut() {
            if let Status::Sleeping(u) = t.status {
                if u <= clock {
                    t.status = Status::Runnable;
                }
            }
        }
    }

    /// choose who runs next. None = nothing can ever run again (deadlock) .
    fn pick(&mut self, at_kind: u32) -> Option<usize> {
        loop {
            self.wake_sleepers();
            let cands: Vec<usize> = (0..self.threads.len())
                .filter(|&i| self.threads[i].status == Status::Runnable)
                .collect();
            if cands.is_empty() {
                let wake = self
                    .threads
                    .iter()
                    .filter_map(|t| {
                        if let Status::Sleeping(u) = t.status {
                            Some(u)
                        } else {
                            None
                        }
                    })
                    .min();
                match wake {
                    Some(u) => {
                        self.clock = self.clock.max(u);
                        continue;
                    }
                    None => return None,
                }
            }
            if cands.len() == 1 {
                return Some(cands[0]);
            }
            if self.cfg.atomic_cycles {
                if let Some(c) = self.in_cycle {
                    if cands.contains(&c) {
                        return Some(c);
                    }
                }
            }
            let cur = self.cur;
            let choice = if let Some(ex) = &self.cfg.explicit {
                let d = ex.get(self.explicit_pos).copied().unwrap_or(NO_DECISION);
                self.explicit_pos += 1;
                if d != NO_DECISION && cands.contains(&(d as usize)) {
                    d as usize
                } else if cands.contains(&cur) {
                    cur
                } else {
                    cands[0]
                }
            } else {
                match self.cfg.policy {
                    Policy::Random { sticky } => {
                        if cands.contains(&cur) && xorshift(&mut self.rng) % 100 < sticky as u64 {
                            cur
                        } else {
                            cands[(xorshift(&mut self.rng) % cands.len() as u64) as usize]
                        }
                    }
                    Policy::Weighted { cw, tw, sticky } => {
                        if cands.contains(&cur) && xorshift(&mut self.rng) % 100 < sticky as u64 {
                            cur
                        } else {
                            let w = |s: &St, i: usize| -> u64 {
                                match s.threads[i].role {
                                    Role::Collector | Role::FlushHelper => cw.max(1) as u64,
                                    _ => tw.max(1) as u64,
                                }
                            };
                            let total: u64 = cands.iter().map(|&i| w(self, i)).sum();
                            let mut r = xorshift(&mut self.rng) % total;
                            let mut ch = cands[0];
                            for &i in &cands {
                                let wi = w(self, i);
                                if r < wi {
                                    ch = i;
                                    break;
                                }
                                r -= wi;
                            }
                            ch
                        }
                    }
                    Policy::Pct { .. } => {
                        let step = self.step;
                        while self.pct_changes.last().map(|&c| step >= c).unwrap_or(false) {
                            self.pct_changes.pop();
                            if cands.contains(&cur) {
                                // the running thread drops below everybody
                                let low = self.threads.iter().map(|t| t.prio).min().unwrap_or(1);
                                self.threads[cur].prio = low.saturating_sub(1);
                            }
                        }
                        *cands
                            .iter()
                            .max_by_key(|&&i| (self.threads[i].prio, usize::MAX - i))
                            .unwrap()
                    }
                }
            };
            self.decisions.push(choice as u16);
            let role = self.threads[choice].role as u64;
            self.dtrace = mix(self.dtrace ^ (role << 8) ^ at_kind as u64 ^ ((cands.len() as u64) << 16));
            return Some(choice);
        }
    }

    fn tick(&mut self) {
        self.step += 1;
        let d = 20 + xorshift(&mut self.clock_rng) % 200;
        self.clock += d;
    }
}

/// hand the token on (the caller has already updated its own status) and wait to get it back
fn switch_from(mut st: StGuard, me: usize, at_kind: u32) {
    if st.hard.is_some() {
        // the run is already condemned: let everybody run freely to the end, one at a time
    }
    match st.pick(at_kind) {
        Some(n) if n == me => {}
        Some(n) => {
            st.switches += 1;
            st.cur = n;
            let cv = st.threads[n].cv.clone();
            cv.notify_one();
            let mycv = st.threads[me].cv.clone();
            let mut g = st.0;
            loop {
                let cur = g.as_ref().map(|s| s.cur);
                if cur == Some(me) {
                    break;
                }
                g = match mycv.wait(g) {
                    Ok(g) => g,
                    Err(p) => p.into_inner(),
                };
            }
        }
        None => {
            let desc = describe_threads(&st);
            st.hard = Some(Hard::Deadlock(desc));
            hard_stop(st);
        }
    }
}

fn describe_threads(st: &St) -> String {
    st.threads
        .iter()
        .enumerate()
        .map(|(i, t)| format!("t{}:{:?}:{:?}", i, t.role, t.status))
        .collect::<Vec<_>>()
        .join(" ")
}

/// A run that can not continue (deadlock, step cap inside a call): the verdict is handed to the
/// waiting runner thread, which writes the report and exits the process.
fn hard_stop(mut st: StGuard) -> ! {
    st.all_done = true;
    drop(st);
    sim().done.notify_all();
    loop {
        std::thread::park();
    }
}

fn h_point(kind: u32, a: u64, b: u64) {
    let mut st = lock_st();
    let me = st.me();
    st.tick();
    let mut a2 = a;
    match kind {
        k if k == fv::P_CYCLE_BEGIN => {
            st.in_cycle = Some(me);
            st.rx_closed_in_pass.clear();
        }
        k if k == fv::P_CYCLE_END => {
            st.in_cycle = None;
            let c = st.cycles;
            st.cycles += 1;
            let steps: Vec<(u32, i64)> = st.cfg.wall_steps.clone();
            for (k, d) in steps {
                if k == c {
                    st.wall_offset += d;
                    let off = st.wall_offset;
                    st.push_ev(me, K_WALLSTEP, d as u64, off as u64);
                }
            }
            // removals of this pass take effect now
            let closed = std::mem::take(&mut st.rx_closed_in_pass);
            let mut idx = 0usize;
            st.rx_owner.retain(|_| {
                let keep = !closed.contains(&idx);
                idx += 1;
                keep
            });
        }
        k if k == fv::P_REGISTER => {
            st.rx_owner.push(me);
            a2 = me as u64;
        }
        k if k == fv::P_DRAIN_RX => {
            // a = position in this pass -> owner thread of that receiver
            let owner = st.rx_owner.get(a as usize).copied().unwrap_or(usize::MAX);
            a2 = owner as u64;
        }
        k if k == fv::P_RX_CLOSED => {
            st.rx_closed_in_pass.push(a as usize);
            let owner = st.rx_owner.get(a as usize).copied().unwrap_or(usize::MAX);
            a2 = owner as u64;
        }
        _ => {}
    }
    st.push_ev(me, kind, a2, b);
    st.last_kind = kind;
    if st.step > st.cfg.max_steps && st.hard.is_none() {
        st.hard = Some(Hard::StepCap);
        hard_stop(st);
    }
    let yields = kind >= 100 && kind == K_YIELD || (kind < 32 && (st.cfg.yield_mask >> kind) & 1 == 1);
    if yields && st.no_yield != Some(me) {
        switch_from(st, me, kind);
    }
}

fn h_lock(id: usize) {
    loop {
        let mut st = lock_st();
        let me = st.me();
        if !st.locks.contains_key(&id) {
            st.locks.insert(id, me);
            return;
        }
        let name = match st.lock_names.iter().position(|&x| x == id) {
            Some(p) => p,
            None => {
                st.lock_names.push(id);
                st.lock_names.len() - 1
            }
        };
        st.tick();
        let owner = st.locks[&id];
        st.push_ev(me, K_LOCK_WAIT, name as u64, owner as u64);
        st.threads[me].status = Status::BlockedLock(id);
        switch_from(st, me, K_LOCK_WAIT);
    }
}

fn h_unlock(id: usize) {
    let mut st = lock_st();
    st.locks.remove(&id);
    for t in st.threads.iter_mut() {
        if t.status == Status::BlockedLock(id) {
            t.status = Status::Runnable;
        }
    }
}

pub fn role_of_name(name: &str) -> Role {
    match name {
        "fastrace-global-collector" => Role::Collector,
        "fastrace-flush" => Role::FlushHelper,
        "main" => Role::Main,
        _ => Role::Caller,
    }
}

fn spawn_inner(name: String, f: Box<dyn FnOnce() + Send + 'static>, from_sim: bool) -> u64 {
    let tid;
    {
        let mut st = lock_st();
        tid = st.threads.len();
        let prio = 1_000_000 + (xorshift(&mut st.rng) % 1_000_000);
        st.threads.push(Th {
            panicked: false,
            status: Status::Runnable,
            cv: Arc::new(Condvar::new()),
            role: role_of_name(&name),
            prio,
            started: false,
        });
        if from_sim {
            let me = st.me();
            st.push_ev(me, K_SPAWN, tid as u64, 0);
        }
    }
    let h = std::thread::Builder::new()
        .name(format!("sim-{name}"))
        .stack_size(4 << 20)
        .spawn(move || {
            {
                let mut g = lock_st();
                g.os2tid.insert(os_self(), tid);
                g.threads[tid].started = true;
                let cv = g.threads[tid].cv.clone();
                let mut g = g.0;
                loop {
                    if g.as_ref().map(|s| s.cur) == Some(tid) {
                        break;
                    }
                    g = match cv.wait(g) {
                        Ok(g) => g,
                        Err(p) => p.into_inner(),
                    };
                }
            }
            if let Err(p) = std::panic::catch_unwind(std::panic::AssertUnwindSafe(f)) {
                if !p.is::<SimExit>() {
                    // a library thread (collector, flush helper) or a program thread died of a panic
                    let msg = if let Some(s) = p.downcast_ref::<&str>() {
                        s.to_string()
                    } else if let Some(s) = p.downcast_ref::<String>() {
                        s.clone()
                    } else {
                        "panic".to_string()
                    };
                    let mut g = lock_st();
                    g.threads[tid].panicked = true;
                    g.panics.push((tid, msg));
                    g.push_ev(tid, K_THREAD_PANIC, tid as u64, 0);
                }
            }
        })
        .expect("spawn os thread");
    std::thread::Builder::new()
        .name("sim-watcher".into())
        .stack_size(64 << 10)
        .spawn(move || {
            let _ = h.join();
            let mut st = lock_st();
            st.threads[tid].status = Status::Finished;
            st.push_ev(tid, K_THREAD_FIN, tid as u64, 0);
            for t in st.threads.iter_mut() {
                if t.status == Status::BlockedJoin(tid) {
                    t.status = Status::Runnable;
                }
            }
            if st.hard.is_some() {
                return;
            }
            debug_assert_eq!(st.cur, tid);
            match st.pick(K_THREAD_FIN) {
                Some(n) => {
                    st.cur = n;
                    let cv = st.threads[n].cv.clone();
                    cv.notify_one();
                }
                None => {
                    if st.threads.iter().all(|t| t.status == Status::Finished) {
                        st.all_done = true;
                    } else {
                        let d = describe_threads(&st);
                        st.hard = Some(Hard::Deadlock(d));
                        st.all_done = true;
                    }
                    drop(st);
                    sim().done.notify_all();
                }
            }
        })
        .expect("spawn watcher");
    tid as u64
}

fn h_spawn(name: String, f: Box<dyn FnOnce() + Send + 'static>) -> u64 {
    let tid = spawn_inner(name, f, true);
    h_point(K_YIELD, tid, 1);
    tid
}

/// returns true if the joined thread died of a panic (std's join would return Err)
fn h_join(t: u64) -> bool {
    loop {
        let mut st = lock_st();
        let me = st.me();
        if st.threads[t as usize].status == Status::Finished {
            return st.threads[t as usize].panicked;
        }
        st.tick();
        st.push_ev(me, K_JOIN_WAIT, t, 0);
        st.threads[me].status = Status::BlockedJoin(t as usize);
        switch_from(st, me, K_JOIN_WAIT);
    }
}

fn h_sleep(d: Duration) {
    let mut st = lock_st();
    let me = st.me();
    if st.shutting_down && st.threads[me].role == Role::Collector {
        drop(st);
        std::panic::resume_unwind(Box::new(SimExit));
    }
    st.tick();
    let mut dur = (d.as_nanos() as u64).max(500);
    if st.threads[me].role == Role::Collector {
        let k = st.collector_sleeps;
        st.collector_sleeps += 1;
        if let Some((idx, extra)) = st.cfg.stall {
            if idx == k {
                dur += extra;
                let (c, e) = (st.clock, st.clock + dur);
                st.stall_windows.push((c, e));
                st.push_ev(me, K_STALL, extra, 0);
            }
        }
    }
    let until = st.clock + dur;
    st.push_ev(me, K_SLEEP, dur, until);
    st.threads[me].status = Status::Sleeping(until);
    switch_from(st, me, K_SLEEP);
    let st = lock_st();
    if st.shutting_down && st.threads[me].role == Role::Collector {
        drop(st);
        std::panic::resume_unwind(Box::new(SimExit));
    }
}

fn h_now() -> u64 {
    let mut st = lock_st();
    let d = 1 + xorshift(&mut st.clock_rng) % 500;
    st.clock += d;
    let c = st.clock;
    let me = st.os2tid.get(&os_self()).copied().unwrap_or(usize::MAX);
    st.push_ev(me, K_CLOCK, c, 0);
    c
}

pub const UNIX_BASE: u64 = 1_700_000_000_000_000_000;

fn h_unix() -> u64 {
    let mut st = lock_st();
    let v = (UNIX_BASE as i64 + st.clock as i64 + st.wall_offset) as u64;
    let me = st.os2tid.get(&os_self()).copied().unwrap_or(usize::MAX);
    st.push_ev(me, K_UNIX, v, 0);
    v
}

static RAND_CTR: std::sync::atomic::AtomicU64 = std::sync::atomic::AtomicU64::new(0);
static RAND_KEY: std::sync::atomic::AtomicU64 = std::sync::atomic::AtomicU64::new(0);
static RAND_ADJ: std::sync::atomic::AtomicBool = std::sync::atomic::AtomicBool::new(false);

/// bijective mix of a per-run counter: pairwise distinct id prefixes inside a run (DESIGN 2.2)
fn h_random() -> u64 {
    use std::sync::atomic::Ordering::SeqCst;
    let c = RAND_CTR.fetch_add(1, SeqCst) + 1;
    let key = RAND_KEY.load(SeqCst) | 1;
    // odd multiplier = bijection on u64; low 32 bits are a bijection of the low 32 bits of c
    // (adjacent mode: consecutive prefixes, still pairwise distinct)
    let mul = if RAND_ADJ.load(SeqCst) { 1 } else { key as u32 | 1 };
    let lo = (c as u32).wrapping_mul(mul).wrapping_add((key >> 32) as u32);
    let hi = (mix(c ^ key) >> 32) as u32;
    ((hi as u64) << 32) | lo as u64
}

fn h_cap(d: usize) -> usize {
    let st = lock_st();
    if st.cfg.ring_cap == 0 {
        d
    } else {
        st.cfg.ring_cap as usize
    }
}

static HOOKS: fv::Hooks = fv::Hooks {
    point: h_point,
    lock: h_lock,
    unlock: h_unlock,
    spawn: h_spawn,
    join: h_join,
    sleep: h_sleep,
    now_ns: h_now,
    unix_ns: h_unix,
    random: h_random,
    ring_capacity: h_cap,
};

// ---------------------------------------------------------------------------------------------
// harness-facing API (called from simulated threads)

/// a harness yield point
pub fn yield_now(a: u64) {
    h_point(K_YIELD, a, 0);
}

pub fn log_ev(kind: u32, a: u64, b: u64) {
    let mut st = lock_st();
    let me = st.me();
    st.push_ev(me, kind, a, b);
}

pub fn my_tid() -> usize {
    lock_st().me()
}

pub fn now() -> u64 {
    lock_st().clock
}

pub fn spawn(name: &str, f: Box<dyn FnOnce() + Send + 'static>) -> u64 {
    h_spawn(name.to_string(), f)
}

pub fn join(t: u64) -> bool {
    h_join(t)
}

pub fn sleep_ns(ns: u64) {
    h_sleep(Duration::from_nanos(ns))
}

/// advance the simulated clock without blocking (a long computation on the calling thread)
/// the calling thread is not pre-empted at hook points until this is switched off again
pub fn no_yield(on: bool) {
    let mut st = lock_st();
    let me = st.me();
    st.no_yield = if on { Some(me) } else { None };
}

pub fn advance_ns(ns: u64) {
    let mut st = lock_st();
    st.clock += ns;
}

pub fn set_op_count(n: usize) {
    lock_st().op_done = vec![false; n];
}

pub fn op_done(i: usize) {
    let mut st = lock_st();
    if i < st.op_done.len() {
        st.op_done[i] = true;
    }
    for t in st.threads.iter_mut() {
        if t.status == Status::BlockedOp(i) {
            t.status = Status::Runnable;
        }
    }
}

pub fn wait_op(i: usize) {
    loop {
        let mut st = lock_st();
        if st.op_done.get(i).copied().unwrap_or(true) {
            return;
        }
        let me = st.me();
        st.tick();
        st.push_ev(me, K_OP_WAIT, i as u64, 0);
        st.threads[me].status = Status::BlockedOp(i);
        switch_from(st, me, K_OP_WAIT);
    }
}

/// slow reporter fault: called from inside report(); sleeps if this is the configured call
pub fn report_stall(batch_idx: usize) {
    let d = {
        let mut st = lock_st();
        match st.cfg.report_stall {
            Some((k, ns)) if k as usize == batch_idx => {
                let (c, e) = (st.clock, st.clock + ns);
                st.stall_windows.push((c, e));
                let me = st.me();
                st.push_ev(me, K_STALL, ns, 1);
                Some(ns)
            }
            _ => None,
        }
    };
    if let Some(ns) = d {
        h_sleep(Duration::from_nanos(ns));
    }
}

pub fn set_shutting_down() {
    lock_st().shutting_down = true;
}

pub fn record_panic(msg: String) {
    let mut st = lock_st();
    let me = st.os2tid.get(&os_self()).copied().unwrap_or(usize::MAX);
    st.panics.push((me, msg));
}

pub struct RunOut {
    pub log: Vec<Ev>,
    pub decisions: Vec<u16>,
    pub dtrace: u64,
    pub steps: u64,
    pub switches: u64,
    pub sim_ns: u64,
    pub hard: Option<Hard>,
    pub cycles: u32,
    pub panics: Vec<(usize, String)>,
    pub stall_windows: Vec<(u64, u64)>,
    pub roles: Vec<Role>,
}

/// Runs `main` as simulated thread 0 under `cfg` and returns when every simulated thread has
/// finished (or the run was condemned).
pub fn run(cfg: SchedCfg, main: Box<dyn FnOnce() + Send + 'static>) -> RunOut {
    use std::sync::atomic::Ordering::SeqCst;
    fv::uninstall();
    fv::reset();
    RAND_CTR.store(0, SeqCst);
    RAND_KEY.store(mix(cfg.seed ^ 0xabcdef), SeqCst);
    RAND_ADJ.store(cfg.adjacent_ids, SeqCst);
    {
        let mut g = match sim().m.lock() {
            Ok(g) => g,
            Err(p) => p.into_inner(),
        };
        let mut rng = mix(cfg.seed) | 1;
        let mut pct_changes = vec![];
        if let Policy::Pct { depth } = cfg.policy {
            for _ in 0..depth {
                pct_changes.push(1 + xorshift(&mut rng) % 400);
            }
            pct_changes.sort_unstable_by(|a, b| b.cmp(a));
        }
        *g = Some(St {
            threads: vec![],
            cur: 0,
            rng,
            clock_rng: mix(cfg.clock_seed) | 1,
            clock: 1_000_000,
            wall_offset: 0,
            step: 0,
            switches: 0,
            log: Vec::with_capacity(1024),
            decisions: vec![],
            dtrace: 0,
            explicit_pos: 0,
            locks: HashMap::new(),
            lock_names: vec![],
            os2tid: HashMap::new(),
            shutting_down: false,
            all_done: false,
            hard: None,
            cfg,
            in_cycle: None,
            cycles: 0,
            collector_sleeps: 0,
            no_yield: None,
            pct_changes,
            op_done: vec![],
            rx_owner: vec![],
            rx_closed_in_pass: vec![],
            panics: vec![],
            last_kind: 0,
            stall_windows: vec![],
        });
    }
    fv::install(&HOOKS);
    spawn_inner("main".into(), main, false);
    let mut g = match sim().m.lock() {
        Ok(g) => g,
        Err(p) => p.into_inner(),
    };
    loop {
        if g.as_ref().map(|s| s.all_done).unwrap_or(true) {
            break;
        }
        g = match sim().done.wait(g) {
            Ok(g) => g,
            Err(p) => p.into_inner(),
        };
    }
    let st = g.take().unwrap();
    drop(g);
    if st.hard.is_none() {
        fv::uninstall();
    }
    RunOut {
        roles: st.threads.iter().map(|t| t.role).collect(),
        log: st.log,
        decisions: st.decisions,
        dtrace: st.dtrace,
        steps: st.step,
        switches: st.switches,
        sim_ns: st.clock - 1_000_000,
        hard: st.hard,
        cycles: st.cycles,
        panics: st.panics,
        stall_windows: st.stall_windows,
    }
}
