//! Seeded program generator. One generator, per-property profiles (weights, knobs, fault mix).

use crate::model::*;
use crate::prog::*;
use crate::sim::{default_yield_mask, mix, Policy, SchedCfg};

pub struct Rng(pub u64);

impl Rng {
    pub fn new(seed: u64) -> Rng {
        Rng(mix(seed) | 1)
    }
    pub fn next(&mut self) -> u64 {
        self.0 ^= self.0 << 13;
        self.0 ^= self.0 >> 7;
        self.0 ^= self.0 << 17;
        self.0
    }
    pub fn below(&mut self, n: u64) -> u64 {
        if n == 0 {
            0
        } else {
            self.next() % n
        }
    }
    pub fn pct(&mut self, p: u64) -> bool {
        self.below(100) < p
    }
    pub fn pick<'a, T>(&mut self, v: &'a [T]) -> &'a T {
        &v[self.below(v.len() as u64) as usize]
    }
}

#[derive(Clone, Copy, Debug, PartialEq, Eq)]
pub enum K {
    Root,
    Child,
    ChildLocal,
    AddProps,
    AddEvent,
    Finish,
    Cancel,
    Elapsed,
    CtxSpan,
    CtxCurrent,
    RootFromCtx,
    SetLocalParent,
    LocalEnter,
    LocalWithProps,
    LocalAddProps,
    LocalAddEvent,
    StartCollector,
    Pop,
    Push,
    ToRecords,
    Flush,
    Cycle,
    Sleep,
    Advance,
    Stats,
    Exit,
    Join,
    Noop,
    NewTask,
    PollTask,
    DropTask,
    EmptyParents,
    TeardownLate,
    LocalBurst,
    ScopeBurst,
    Collect,
    UnwindScope,
    Twin,
    EventNew,
    AddEventFrom,
    UserPanic,
    RootBurst,
    ReplaceReporter,
    CycleBurst,
    SpanBurst,
}

#[derive(Clone)]
pub struct Profile {
    pub prop: &'static str,
    pub callers: (u64, u64),
    pub ops: (u64, u64),
    pub cancelable_pct: u64,
    pub intervals: &'static [u64],
    /// (capacity, weight); 0 = library default
    pub ring_caps: &'static [(u32, u64)],
    pub atomic_pct: u64,
    pub weights: &'static [(K, u64)],
    pub unsampled_pct: u64,
    pub utf8_pct: u64,
    pub warm_pct: u64,
    pub exit_after_finish_pct: u64,
    pub stall_pct: u64,
    pub wallstep_pct: u64,
    pub max_depth: usize,
    pub props_pct: u64,
    pub multi_parent_pct: u64,
    /// tail: sleep 2*interval + eps before the final flush
    pub live_tail: bool,
    /// reporter installed only after some operations
    pub late_reporter_pct: u64,
    pub noop_pct: u64,
    pub task_wraps: &'static [Wrap],
    pub reentrant_pct: u64,
    /// the reporter itself records spans while it reports
    pub reporter_traces_pct: u64,
    pub no_reporter_pct: u64,
    pub teardown_early_pct: u64,
    /// share of the runs that may contain one limit-overflow burst (expensive)
    pub burst_pct: u64,
    /// share of the Finish operations that release the span from an unwinding frame
    pub unwind_finish_pct: u64,
    /// share of the runs with many traces (12..41 instead of 2..7), so that one thread can start and
    /// finish a long series of roots during one overload episode (many parked signals)
    pub many_traces_pct: u64,
    /// swarm: operation kinds added on top of the property's own table for this run
    pub extra: &'static [(K, u64)],
}

/// Swarm testing: a share of the runs of every property gets, on top of the property's own
/// profile, a random subset of the cross-cutting fault kinds and operations of the other profiles
/// (so that no property's check silently depends on one workload shape).
pub const SWARM_PCT: u64 = 15;
const X_UNWIND: &[(K, u64)] = &[(K::UnwindScope, 4), (K::UserPanic, 3), (K::Collect, 2)];
const X_EVENTS: &[(K, u64)] = &[(K::EventNew, 3), (K::AddEventFrom, 4), (K::LocalAddEvent, 3), (K::AddEvent, 3), (K::LocalAddProps, 3), (K::AddProps, 3)];
const X_THREADS: &[(K, u64)] = &[(K::RootBurst, 3), (K::ReplaceReporter, 2), (K::Exit, 4), (K::Join, 4), (K::Flush, 4), (K::Cycle, 3), (K::Sleep, 2)];
const X_SCOPES: &[(K, u64)] = &[(K::StartCollector, 4), (K::Push, 3), (K::Collect, 2), (K::SetLocalParent, 4), (K::ChildLocal, 4), (K::Pop, 8)];
const X_CTX: &[(K, u64)] = &[(K::CtxCurrent, 4), (K::CtxSpan, 4), (K::RootFromCtx, 3), (K::Noop, 2), (K::EmptyParents, 1), (K::Elapsed, 2)];
const X_MIX: &[(K, u64)] = &[(K::UnwindScope, 2), (K::UserPanic, 2), (K::EventNew, 2), (K::AddEventFrom, 2), (K::Exit, 2), (K::Join, 2), (K::Flush, 2), (K::StartCollector, 2), (K::Push, 2), (K::CtxCurrent, 2), (K::ReplaceReporter, 1), (K::RootBurst, 1)];
const X_SETS: &[&[(K, u64)]] = &[&[], X_UNWIND, X_EVENTS, X_THREADS, X_SCOPES, X_CTX, X_MIX, X_MIX];
const SMALL_RINGS: &[(u32, u64)] = &[(0, 2), (2, 2), (3, 1), (4, 2), (8, 1), (16, 2), (32, 1)];

pub fn is_swarm(seed: u64) -> bool {
    Rng::new(mix(seed ^ 0x5a3a_1157)).pct(SWARM_PCT)
}

pub fn swarm(p: &mut Profile, seed: u64) -> bool {
    let mut r = Rng::new(mix(seed ^ 0x5a3a_1157));
    if !r.pct(SWARM_PCT) {
        return false;
    }
    if r.pct(35) {
        p.stall_pct = p.stall_pct.max(60);
    }
    if r.pct(25) {
        p.wallstep_pct = p.wallstep_pct.max(60);
    }
    // (calls from thread-local destructors stay with C07: the spans they record are not part of
    // the modelled program)
    let _ = r.pct(25);
    if r.pct(20) {
        p.late_reporter_pct = p.late_reporter_pct.max(50);
    }
    if r.pct(30) {
        p.reentrant_pct = p.reentrant_pct.max(20);
        p.props_pct = p.props_pct.max(30);
    }
    if r.pct(30) {
        p.exit_after_finish_pct = p.exit_after_finish_pct.max(60);
    }
    // (the C15 oracle compares delivered trees of twin calls and has no notion of the permitted
    // omissions of a full queue, so its queue stays at the default capacity)
    if r.pct(30) && p.prop != "C15" {
        p.ring_caps = SMALL_RINGS;
    }
    if r.pct(20) {
        p.unsampled_pct = p.unsampled_pct.max(20);
    }
    if r.pct(20) {
        p.utf8_pct = p.utf8_pct.max(50);
    }
    if r.pct(20) {
        p.many_traces_pct = p.many_traces_pct.max(60);
    }
    p.extra = X_SETS[r.below(X_SETS.len() as u64) as usize];
    true
}

pub const EPS_NS: u64 = 30_000;

/// Strict nesting: programs for the build with fastrace's debug assertions compiled in honour the
/// one precondition the library states (guards and local spans are released in reverse order of
/// creation) also where the other build deliberately does not: a scope is collected with local
/// spans still open only if no other scope is below it, and the dead guards are dropped at once.
static STRICT: std::sync::atomic::AtomicBool = std::sync::atomic::AtomicBool::new(false);
pub fn set_strict(on: bool) {
    STRICT.store(on, std::sync::atomic::Ordering::Relaxed);
}
pub fn strict() -> bool {
    STRICT.load(std::sync::atomic::Ordering::Relaxed)
}

pub fn base_profile(prop: &'static str) -> Profile {
    Profile {
        prop,
        callers: (1, 3),
        ops: (10, 60),
        cancelable_pct: 0,
        intervals: &[0, 20_000, 200_000, 10_000_000],
        ring_caps: &[(0, 8), (2, 1), (4, 1), (16, 1)],
        atomic_pct: 0,
        weights: &[
            (K::CycleBurst, 1),
            (K::SpanBurst, 1),
            (K::Advance, 1),
            (K::ReplaceReporter, 1),
            (K::Root, 8),
            (K::Child, 10),
            (K::ChildLocal, 4),
            (K::Finish, 14),
            (K::SetLocalParent, 6),
            (K::LocalEnter, 8),
            (K::Pop, 16),
            (K::LocalAddEvent, 2),
            (K::LocalAddProps, 2),
            (K::AddProps, 2),
            (K::AddEvent, 2),
            (K::StartCollector, 1),
            (K::Push, 2),
            (K::Flush, 2),
            (K::Cycle, 2),
            (K::Sleep, 1),
            (K::Exit, 2),
            (K::Join, 2),
        ],
        unsampled_pct: 0,
        utf8_pct: 0,
        warm_pct: 50,
        exit_after_finish_pct: 25,
        stall_pct: 10,
        wallstep_pct: 0,
        max_depth: 6,
        props_pct: 20,
        multi_parent_pct: 25,
        live_tail: true,
        late_reporter_pct: 0,
        noop_pct: 0,
        task_wraps: &[Wrap::InSpan, Wrap::EnterOnPoll, Wrap::InSpanEnterOnPoll, Wrap::InSpanCatch],
        reentrant_pct: 0,
        reporter_traces_pct: 0,
        no_reporter_pct: 0,
        many_traces_pct: 0,
        unwind_finish_pct: 8,
        burst_pct: 4,
        extra: &[],
        teardown_early_pct: 0,
    }
}

const W_TREE: &[(K, u64)] = &[
    (K::CycleBurst, 1),
    (K::SpanBurst, 1),
    (K::Advance, 1),
    (K::ReplaceReporter, 1),
    (K::UnwindScope, 3),
    (K::Root, 6),
    (K::Child, 12),
    (K::ChildLocal, 10),
    (K::Finish, 14),
    (K::SetLocalParent, 10),
    (K::LocalEnter, 14),
    (K::Pop, 22),
    (K::LocalAddEvent, 2),
    (K::StartCollector, 2),
    (K::Push, 3),
    (K::Flush, 2),
    (K::Cycle, 6),
    (K::CtxSpan, 2),
    (K::Exit, 1),
    (K::Join, 1),
];

const W_CANCELABLE: &[(K, u64)] = &[
    (K::CycleBurst, 1),
    (K::SpanBurst, 1),
    (K::Advance, 1),
    (K::ReplaceReporter, 1),
    (K::Root, 8),
    (K::Child, 12),
    (K::ChildLocal, 4),
    (K::Finish, 16),
    (K::SetLocalParent, 6),
    (K::LocalEnter, 8),
    (K::Pop, 14),
    (K::AddProps, 1),
    (K::AddEvent, 1),
    (K::StartCollector, 1),
    (K::Push, 2),
    (K::Flush, 1),
    (K::Cycle, 2),
    (K::Sleep, 1),
    (K::Exit, 2),
    (K::Join, 3),
];

const W_CANCEL: &[(K, u64)] = &[
    (K::CycleBurst, 1),
    (K::SpanBurst, 1),
    (K::Advance, 1),
    (K::ReplaceReporter, 1),
    (K::RootBurst, 2),
    (K::Root, 10),
    (K::Child, 10),
    (K::ChildLocal, 3),
    (K::Finish, 14),
    (K::Cancel, 7),
    (K::SetLocalParent, 5),
    (K::LocalEnter, 6),
    (K::Pop, 11),
    (K::AddProps, 3),
    (K::AddEvent, 3),
    (K::LocalAddEvent, 2),
    (K::LocalAddProps, 2),
    (K::StartCollector, 1),
    (K::Push, 2),
    (K::Flush, 1),
    (K::Cycle, 3),
    (K::Exit, 2),
    (K::Join, 2),
    (K::Noop, 1),
];

const W_SAMPLING: &[(K, u64)] = &[
    (K::Root, 10),
    (K::Child, 12),
    (K::ChildLocal, 6),
    (K::Finish, 14),
    (K::SetLocalParent, 8),
    (K::LocalEnter, 8),
    (K::Pop, 16),
    (K::AddProps, 2),
    (K::AddEvent, 2),
    (K::LocalAddEvent, 3),
    (K::LocalAddProps, 3),
    (K::StartCollector, 2),
    (K::Push, 3),
    (K::CtxSpan, 5),
    (K::CtxCurrent, 5),
    (K::Flush, 1),
    (K::Cycle, 3),
    (K::Exit, 1),
    (K::Join, 1),
];

const W_ATTACH: &[(K, u64)] = &[
    (K::CycleBurst, 1),
    (K::SpanBurst, 1),
    (K::Advance, 1),
    (K::UserPanic, 3),
    (K::EventNew, 3),
    (K::AddEventFrom, 4),
    (K::Root, 6),
    (K::Child, 10),
    (K::ChildLocal, 4),
    (K::Finish, 10),
    (K::SetLocalParent, 8),
    (K::LocalEnter, 8),
    (K::LocalWithProps, 4),
    (K::Pop, 16),
    (K::AddProps, 8),
    (K::AddEvent, 8),
    (K::LocalAddEvent, 8),
    (K::LocalAddProps, 8),
    (K::StartCollector, 1),
    (K::Push, 2),
    (K::Flush, 1),
    (K::Cycle, 8),
    (K::Exit, 1),
    (K::Join, 1),
];

const W_STATE: &[(K, u64)] = &[
    (K::CycleBurst, 1),
    (K::SpanBurst, 1),
    (K::Advance, 1),
    (K::Root, 14),
    (K::Child, 8),
    (K::ChildLocal, 2),
    (K::Finish, 18),
    (K::Cancel, 3),
    (K::SetLocalParent, 4),
    (K::LocalEnter, 4),
    (K::Pop, 8),
    (K::AddProps, 2),
    (K::AddEvent, 2),
    (K::LocalAddEvent, 1),
    (K::Flush, 2),
    (K::Cycle, 3),
    (K::Stats, 2),
    (K::Exit, 4),
    (K::Join, 4),
];

const W_SCOPES: &[(K, u64)] = &[
    (K::LocalBurst, 1),
    (K::UserPanic, 3),
    (K::EventNew, 3),
    (K::AddEventFrom, 4),
    (K::UnwindScope, 4),
    (K::Root, 5),
    (K::Child, 6),
    (K::ChildLocal, 10),
    (K::Finish, 8),
    (K::SetLocalParent, 12),
    (K::LocalEnter, 14),
    (K::LocalWithProps, 2),
    (K::StartCollector, 5),
    (K::Pop, 26),
    (K::LocalAddEvent, 5),
    (K::LocalAddProps, 5),
    (K::CtxCurrent, 16),
    (K::Push, 2),
    (K::Cycle, 3),
    (K::Noop, 1),
];

const W_CTX: &[(K, u64)] = &[
    (K::UserPanic, 3),
    // program points inside property closures (contexts are extracted there too)
    (K::LocalAddProps, 5),
    (K::AddProps, 3),
    (K::LocalAddEvent, 3),
    (K::LocalWithProps, 3),
    (K::Root, 8),
    (K::Child, 10),
    (K::ChildLocal, 6),
    (K::Finish, 10),
    (K::SetLocalParent, 8),
    (K::LocalEnter, 8),
    (K::StartCollector, 2),
    (K::Pop, 16),
    (K::CtxSpan, 10),
    (K::CtxCurrent, 10),
    (K::RootFromCtx, 10),
    (K::Noop, 2),
    (K::Cycle, 2),
    (K::Flush, 1),
];

const W_LAZY: &[(K, u64)] = &[
    (K::EventNew, 3),
    (K::AddEventFrom, 4),
    (K::UnwindScope, 4),
    (K::Root, 8),
    (K::Noop, 6),
    (K::Child, 12),
    (K::ChildLocal, 8),
    (K::Finish, 10),
    (K::SetLocalParent, 8),
    (K::LocalEnter, 10),
    (K::LocalWithProps, 5),
    (K::StartCollector, 2),
    (K::Pop, 18),
    (K::AddProps, 6),
    (K::AddEvent, 4),
    (K::LocalAddEvent, 4),
    (K::LocalAddProps, 6),
    (K::Elapsed, 4),
    (K::CtxSpan, 3),
    (K::CtxCurrent, 3),
    (K::Push, 2),
    (K::Cycle, 2),
];

const W_ASYNC: &[(K, u64)] = &[
    (K::ReplaceReporter, 1),
    (K::Root, 9),
    (K::Child, 8),
    (K::NewTask, 10),
    (K::PollTask, 30),
    (K::DropTask, 4),
    (K::Finish, 7),
    (K::SetLocalParent, 4),
    (K::LocalEnter, 4),
    (K::Pop, 10),
    (K::CtxCurrent, 8),
    (K::Cycle, 6),
    (K::Flush, 1),
    (K::Exit, 1),
    (K::Join, 1),
];

const W_API: &[(K, u64)] = &[
    (K::UserPanic, 3),
    (K::EventNew, 3),
    (K::AddEventFrom, 4),
    (K::UnwindScope, 3),
    (K::Root, 8),
    (K::Noop, 3),
    (K::EmptyParents, 5),
    (K::Child, 9),
    (K::ChildLocal, 6),
    (K::Finish, 9),
    (K::Cancel, 2),
    (K::Elapsed, 2),
    (K::SetLocalParent, 9),
    (K::LocalEnter, 9),
    (K::LocalWithProps, 4),
    (K::StartCollector, 3),
    (K::Pop, 20),
    (K::AddProps, 5),
    (K::AddEvent, 4),
    (K::LocalAddEvent, 5),
    (K::LocalAddProps, 6),
    (K::CtxSpan, 4),
    (K::CtxCurrent, 8),
    (K::RootFromCtx, 2),
    (K::Push, 2),
    (K::ToRecords, 1),
    (K::NewTask, 2),
    (K::PollTask, 5),
    (K::DropTask, 1),
    (K::TeardownLate, 2),
    (K::LocalBurst, 1),
    (K::ScopeBurst, 1),
    (K::Cycle, 2),
    (K::Flush, 2),
    (K::Sleep, 1),
    (K::Exit, 2),
    (K::Join, 1),
];

const W_OVERLOAD: &[(K, u64)] = &[
    (K::CycleBurst, 1),
    (K::SpanBurst, 1),
    (K::Advance, 1),
    (K::RootBurst, 3),
    (K::Root, 12),
    (K::Child, 10),
    (K::ChildLocal, 3),
    (K::Finish, 16),
    (K::Cancel, 5),
    (K::SetLocalParent, 6),
    (K::LocalEnter, 8),
    (K::Pop, 14),
    (K::AddProps, 3),
    (K::AddEvent, 3),
    (K::LocalAddEvent, 2),
    (K::StartCollector, 1),
    (K::Push, 2),
    (K::LocalBurst, 1),
    (K::ScopeBurst, 1),
    (K::Flush, 1),
    (K::Cycle, 3),
    (K::Sleep, 3),
    (K::Exit, 3),
    (K::Join, 2),
];

const W_TWINS: &[(K, u64)] = &[
    (K::Root, 10),
    (K::Noop, 2),
    (K::Child, 8),
    (K::Finish, 8),
    (K::Twin, 40),
    (K::Cycle, 8),
    (K::Flush, 2),
    (K::Exit, 1),
    (K::Join, 1),
];

const W_SETS: &[(K, u64)] = &[
    (K::RootBurst, 5),
    (K::Root, 8),
    (K::Child, 10),
    (K::Finish, 12),
    (K::Collect, 6),
    (K::StartCollector, 10),
    (K::LocalEnter, 16),
    (K::LocalWithProps, 3),
    (K::LocalAddEvent, 6),
    (K::LocalAddProps, 5),
    (K::Pop, 24),
    (K::Push, 14),
    (K::ToRecords, 6),
    (K::SetLocalParent, 3),
    (K::Cycle, 5),
    (K::Advance, 3),
    (K::Flush, 1),
];

const W_TIMES: &[(K, u64)] = &[
    (K::EventNew, 3),
    (K::AddEventFrom, 4),
    (K::Collect, 5),
    (K::Root, 6),
    (K::Child, 8),
    (K::ChildLocal, 4),
    (K::Finish, 10),
    (K::SetLocalParent, 8),
    (K::LocalEnter, 16),
    (K::LocalAddEvent, 8),
    (K::StartCollector, 3),
    (K::Pop, 24),
    (K::Push, 3),
    (K::Elapsed, 5),
    (K::Advance, 8),
    (K::Sleep, 2),
    (K::Cycle, 6),
    (K::Flush, 1),
    (K::AddEvent, 2),
];

pub fn profile(prop: &str) -> Profile {
    let b = base_profile("C01");
    match prop {
        "C01" => b,
        "C02" => Profile {
            prop: "C02",
            ops: (15, 70),
            cancelable_pct: 30,
            atomic_pct: 60,
            weights: W_TREE,
            multi_parent_pct: 45,
            max_depth: 8,
            live_tail: false,
            stall_pct: 0,
            ..b
        },
        "C03" => Profile {
            prop: "C03",
            cancelable_pct: 100,
            weights: W_CANCELABLE,
            warm_pct: 85,
            live_tail: false,
            callers: (1, 3),
            ..b
        },
        "C04" => Profile {
            prop: "C04",
            cancelable_pct: 70,
            weights: W_CANCEL,
            ring_caps: &[(0, 5), (2, 1), (3, 1), (4, 1), (8, 1), (16, 1), (32, 1)],
            many_traces_pct: 20,
            stall_pct: 25,
            atomic_pct: 35,
            warm_pct: 70,
            live_tail: false,
            props_pct: 30,
            ..b
        },
        "C05" => Profile {
            prop: "C05",
            cancelable_pct: 20,
            weights: W_SAMPLING,
            unsampled_pct: 45,
            multi_parent_pct: 45,
            live_tail: false,
            props_pct: 30,
            ..b
        },
        "C06" => Profile {
            prop: "C06",
            cancelable_pct: 30,
            weights: W_ATTACH,
            atomic_pct: 75,
            utf8_pct: 35,
            props_pct: 60,
            live_tail: false,
            stall_pct: 0,
            ..b
        },
        "C08" => Profile {
            prop: "C08",
            ops: (30, 110),
            cancelable_pct: 50,
            weights: W_STATE,
            warm_pct: 85,
            exit_after_finish_pct: 35,
            live_tail: false,
            callers: (1, 4),
            ..b
        },
        "C10" => Profile {
            prop: "C10",
            reentrant_pct: 25,
            reporter_traces_pct: 6,
            props_pct: 35,
            callers: (0, 2),
            ops: (20, 90),
            cancelable_pct: 20,
            weights: W_SCOPES,
            burst_pct: 3,
            max_depth: 12,
            unsampled_pct: 15,
            live_tail: false,
            stall_pct: 0,
            noop_pct: 5,
            ..b
        },
        "C11" => Profile {
            prop: "C11",
            reentrant_pct: 25,
            reporter_traces_pct: 6,
            props_pct: 35,
            callers: (0, 2),
            cancelable_pct: 20,
            weights: W_CTX,
            unsampled_pct: 20,
            multi_parent_pct: 40,
            live_tail: false,
            stall_pct: 0,
            ..b
        },
        "C07" => Profile {
            prop: "C07",
            callers: (0, 3),
            ops: (10, 70),
            cancelable_pct: 40,
            weights: W_API,
            ring_caps: &[(0, 4), (2, 1), (3, 1), (8, 1)],
            props_pct: 60,
            reentrant_pct: 50,
            reporter_traces_pct: 12,
            no_reporter_pct: 15,
            late_reporter_pct: 25,
            teardown_early_pct: 25,
            unsampled_pct: 20,
            stall_pct: 40,
            live_tail: false,
            max_depth: 8,
            ..b
        },
        "C09" => Profile {
            prop: "C09",
            callers: (1, 3),
            ops: (15, 80),
            cancelable_pct: 40,
            weights: W_OVERLOAD,
            burst_pct: 8,
            ring_caps: &[(2, 3), (3, 2), (4, 2), (8, 2), (16, 2), (32, 1), (0, 1)],
            many_traces_pct: 25,
            stall_pct: 50,
            props_pct: 30,
            warm_pct: 60,
            exit_after_finish_pct: 30,
            live_tail: false,
            ..b
        },
        "C15" => Profile {
            prop: "C15",
            callers: (0, 2),
            ops: (10, 50),
            cancelable_pct: 0,
            weights: W_TWINS,
            ring_caps: &[(0, 1)],
            unsampled_pct: 20,
            multi_parent_pct: 30,
            atomic_pct: 30,
            live_tail: false,
            stall_pct: 0,
            ..b
        },
        "C13" => Profile {
            prop: "C13",
            callers: (0, 3),
            unsampled_pct: 20,
            cancelable_pct: 50,
            weights: W_ASYNC,
            atomic_pct: 50,
            props_pct: 30,
            live_tail: false,
            stall_pct: 0,
            warm_pct: 70,
            ..b
        },
        "C14" => Profile {
            prop: "C14",
            callers: (0, 3),
            unsampled_pct: 20,
            cancelable_pct: 50,
            weights: W_ASYNC,
            atomic_pct: 50,
            props_pct: 30,
            live_tail: false,
            stall_pct: 0,
            warm_pct: 70,
            task_wraps: &[Wrap::Stream, Wrap::Sink],
            ..b
        },
        "C17" => Profile {
            prop: "C17",
            callers: (0, 2),
            cancelable_pct: 25,
            weights: W_SETS,
            // parents whose trace start was lost to a full queue receive their copies as stale spans
            ring_caps: &[(0, 4), (2, 4), (3, 1), (4, 2), (8, 1)],
            late_reporter_pct: 12,
            many_traces_pct: 30,
            atomic_pct: 50,
            wallstep_pct: 50,
            props_pct: 40,
            max_depth: 7,
            live_tail: false,
            stall_pct: 0,
            ..b
        },
        "C18" => Profile {
            prop: "C18",
            callers: (0, 2),
            cancelable_pct: 25,
            weights: W_TIMES,
            atomic_pct: 60,
            wallstep_pct: 50,
            max_depth: 8,
            live_tail: false,
            stall_pct: 0,
            ..b
        },
        "C16" => Profile {
            prop: "C16",
            callers: (0, 2),
            cancelable_pct: 30,
            weights: W_LAZY,
            props_pct: 75,
            late_reporter_pct: 55,
            unsampled_pct: 15,
            live_tail: false,
            stall_pct: 0,
            ..b
        },
        _ => b,
    }
}

struct Gen<'a> {
    rng: Rng,
    p: &'a Profile,
    model: Model,
    ops: Vec<OpRec>,
    next_slot: Slot,
    next_trace: usize,
    ntraces: usize,
    interval: u64,
    bursts: u32,
    burst_ok: bool,
    td_armed: std::collections::HashSet<u8>,
    replaced: u32,
    in_poll: bool,
    cur_task: Option<Slot>,
}

impl<'a> Gen<'a> {
    fn push(&mut self, t: u8, op: Op) -> bool {
        let rec = OpRec { t, op, inner: vec![] };
        let idx = self.ops.len();
        // apply on a clone-free basis: the generator only proposes valid operations, a rejection
        // is a generator bug surfaced loudly in debug runs and skipped otherwise
        match self.model.apply(idx, &rec) {
            Ok(()) => {
                self.ops.push(rec);
                true
            }
            Err(e) => {
                if std::env::var("DST_GEN_DEBUG").is_ok() {
                    eprintln!("generator proposed invalid op {:?}: {}", rec, e);
                }
                false
            }
        }
    }

    fn push_inner(&mut self, t: u8, op: Op, inner: Vec<Op>) -> bool {
        let rec = OpRec { t, op, inner };
        let idx = self.ops.len();
        let snapshot = self.model.clone();
        match self.model.apply(idx, &rec) {
            Ok(()) => {
                self.ops.push(rec);
                true
            }
            Err(e) => {
                self.model = snapshot;
                if std::env::var("DST_GEN_DEBUG").is_ok() {
                    eprintln!("generator proposed invalid op {:?}: {}", rec, e);
                }
                false
            }
        }
    }

    fn tasks(&self, live_only: bool) -> Vec<Slot> {
        self.model
            .slots
            .iter()
            .enumerate()
            .filter_map(|(i, s)| match s {
                SlotM::Task(tk) if !live_only || !tk.done => Some(i as Slot),
                _ => None,
            })
            .collect()
    }

    fn maybe_inner(&mut self, props: u8) -> Vec<Op> {
        if props > 0 && self.p.reentrant_pct > 0 && self.rng.pct(self.p.reentrant_pct) {
            let mut b = self.gen_body();
            if b.is_empty() {
                let ctx = self.new_slot();
                b.push(Op::CtxCurrent { ctx });
            }
            b
        } else {
            vec![]
        }
    }

    fn gen_body(&mut self) -> Vec<Op> {
        let mut body: Vec<Op> = vec![];
        if self.in_poll && self.rng.pct(15) {
            body.push(Op::HoldChild);
        }
        if self.in_poll && self.rng.pct(12) {
            // nested adapters: poll another live task from inside this body
            let others: Vec<Slot> = self.tasks(true).into_iter().filter(|t| Some(*t) != self.cur_task).collect();
            if !others.is_empty() {
                let task = *self.rng.pick(&others);
                if let SlotM::Task(tk) = self.model.slot_ref(task) {
                    let kind = match tk.wrap {
                        Wrap::Stream => PollKind::PollNextItem,
                        Wrap::Sink => PollKind::PollFlush,
                        _ => PollKind::Poll,
                    };
                    let ready = self.rng.pct(25);
                    body.push(Op::Poll { task, kind, ready });
                }
            }
        }
        let n = self.rng.below(4);
        for _ in 0..n {
            if body.len() > 9 {
                break;
            }
            match self.rng.below(8) {
                0 => {
                    let props = self.nprops();
                    body.push(Op::LocalEnter { props });
                    body.push(Op::Pop { into: None });
                }
                1 => {
                    body.push(Op::LocalEnter { props: 0 });
                    let n = self.nprops();
                    body.push(Op::LocalAddEvent { n });
                    body.push(Op::Pop { into: None });
                }
                2 => {
                    let n = self.nprops();
                    body.push(Op::LocalAddEvent { n });
                }
                3 => {
                    let n = 1 + self.rng.below(2) as u8;
                    body.push(Op::LocalAddProps { n });
                }
                4 => {
                    let ctx = self.new_slot();
                    body.push(Op::CtxCurrent { ctx });
                }
                5 => {
                    let slot = self.new_slot();
                    body.push(Op::ChildLocal { slot, props: 0 });
                    body.push(Op::Finish { slot, unwind: false });
                }
                6 => {
                    body.push(Op::LocalEnter { props: 0 });
                    body.push(Op::LocalEnter { props: 0 });
                    body.push(Op::Pop { into: None });
                    body.push(Op::Pop { into: None });
                }
                _ => {
                    body.push(Op::LocalEnter { props: 0 });
                    let ctx = self.new_slot();
                    body.push(Op::CtxCurrent { ctx });
                    body.push(Op::Pop { into: None });
                }
            }
        }
        body
    }

    fn new_slot(&mut self) -> Slot {
        let s = self.next_slot;
        self.next_slot += 1;
        s
    }

    fn live_spans(&self) -> Vec<Slot> {
        self.model
            .slots
            .iter()
            .enumerate()
            .filter_map(|(i, s)| if let SlotM::Span(_) = s { Some(i as Slot) } else { None })
            .collect()
    }

    fn sets(&self) -> Vec<Slot> {
        self.model
            .slots
            .iter()
            .enumerate()
            .filter_map(|(i, s)| if let SlotM::Set(_) = s { Some(i as Slot) } else { None })
            .collect()
    }

    fn ctxs(&self) -> Vec<Slot> {
        self.model
            .slots
            .iter()
            .enumerate()
            .filter_map(|(i, s)| if let SlotM::Ctx(_) = s { Some(i as Slot) } else { None })
            .collect()
    }

    fn nprops(&mut self) -> u8 {
        if self.rng.pct(self.p.props_pct) {
            1 + self.rng.below(3) as u8
        } else {
            0
        }
    }

    fn active_threads(&self) -> Vec<u8> {
        self.model
            .threads
            .iter()
            .enumerate()
            .filter(|(_, t)| t.spawned && !t.ended)
            .map(|(i, _)| i as u8)
            .collect()
    }

    fn try_kind(&mut self, t: u8, k: K) -> bool {
        let depth = self.model.threads[t as usize].stack.len();
        match k {
            K::Root => {
                if self.next_trace >= self.ntraces {
                    return false;
                }
                let tr = self.next_trace as u8;
                self.next_trace += 1;
                let slot = self.new_slot();
                let props = self.nprops();
                {
                    let inner = self.maybe_inner(props);
                    self.push_inner(t, Op::Root { slot, trace: tr, props }, inner)
                }
            }
            K::ReplaceReporter => {
                if t != 0 || self.replaced >= 2 {
                    return false;
                }
                match self.model.reporter {
                    // (two collector threads that never sleep would starve the callers under the
                    // priority-based scheduling policies: an artefact of running one thread at a time)
                    Some((_, 0)) => false,
                    Some((cancelable, interval_ns)) => {
                        self.replaced += 1;
                        self.push(0, Op::ReplaceReporter { cancelable, interval_ns })
                    }
                    None => false,
                }
            }
            K::RootBurst => {
                // one thread starts and finishes a series of roots back to back
                let avail = self.ntraces.saturating_sub(self.next_trace);
                if avail < 3 {
                    return false;
                }
                let k = (3 + self.rng.below(22) as usize).min(avail);
                // (sometimes the last two stay open: with a small ring their trace starts were lost,
                // and whatever is pushed to them later travels as stale spans)
                let keep_tail = if self.rng.pct(45) { 1 + self.rng.below(2) as usize } else { 0 };
                for j in 0..k {
                    let tr = self.next_trace as u8;
                    self.next_trace += 1;
                    let slot = self.new_slot();
                    if !self.push(t, Op::Root { slot, trace: tr, props: 0 }) {
                        return false;
                    }
                    if j + keep_tail < k {
                        self.push(t, Op::Finish { slot, unwind: false });
                    }
                }
                true
            }
            K::Noop => {
                let slot = self.new_slot();
                self.push(t, Op::Noop { slot })
            }
            K::Child => {
                let live = self.live_spans();
                if live.is_empty() {
                    return false;
                }
                let mut parents = vec![*self.rng.pick(&live)];
                let multi = self.rng.pct(self.p.multi_parent_pct);
                if multi {
                    let extra = self.rng.below(3);
                    for _ in 0..extra {
                        let c = *self.rng.pick(&live);
                        if !parents.contains(&c) {
                            parents.push(c);
                        }
                    }
                }
                // never join two collects that share a trace id under one span (records of such a
                // span could not be attributed to one collect)
                let mut seen: Vec<(u128, usize)> = vec![];
                let mut ok_parents: Vec<Slot> = vec![];
                for p in parents {
                    let mut ok = true;
                    if let SlotM::Span(sp) = self.model.slot_ref(p) {
                        for it in &sp.items {
                            let tid = self.model.collects[it.collect].trace_id;
                            if seen.iter().any(|(t2, c2)| *t2 == tid && *c2 != it.collect) {
                                ok = false;
                            }
                        }
                        if ok {
                            for it in &sp.items {
                                seen.push((self.model.collects[it.collect].trace_id, it.collect));
                            }
                        }
                    }
                    if ok {
                        ok_parents.push(p);
                    }
                }
                let parents = ok_parents;
                if parents.is_empty() {
                    return false;
                }
                let slot = self.new_slot();
                let props = self.nprops();
                let inner = self.maybe_inner(props);
                self.push_inner(
                    t,
                    Op::Child {
                        slot,
                        parents,
                        multi,
                        props,
                    },
                    inner,
                )
            }
            K::ChildLocal => {
                let slot = self.new_slot();
                let props = self.nprops();
                let inner = self.maybe_inner(props);
                self.push_inner(t, Op::ChildLocal { slot, props }, inner)
            }
            K::AddProps | K::AddEvent | K::Cancel | K::Elapsed | K::SetLocalParent | K::CtxSpan => {
                let live = self.live_spans();
                if live.is_empty() {
                    return false;
                }
                let slot = *self.rng.pick(&live);
                match k {
                    K::AddProps => {
                        let n = if self.rng.pct(8) { 0 } else { 1 + self.rng.below(3) as u8 };
                        let inner = self.maybe_inner(n);
                        self.push_inner(t, Op::AddProps { slot, n }, inner)
                    }
                    K::AddEvent => {
                        let n = self.nprops();
                        let inner = self.maybe_inner(n);
                        self.push_inner(t, Op::AddEvent { slot, n }, inner)
                    }
                    K::Cancel => self.push(t, Op::Cancel { slot }),
                    K::Elapsed => self.push(t, Op::Elapsed { slot }),
                    K::CtxSpan => {
                        let ctx = self.new_slot();
                        self.push(t, Op::CtxSpan { slot, ctx })
                    }
                    _ => {
                        if depth >= self.p.max_depth {
                            return false;
                        }
                        self.push(t, Op::SetLocalParent { slot })
                    }
                }
            }
            K::CtxCurrent => {
                let ctx = self.new_slot();
                self.push(t, Op::CtxCurrent { ctx })
            }
            K::RootFromCtx => {
                let cs = self.ctxs();
                if cs.is_empty() {
                    return false;
                }
                let ctx = *self.rng.pick(&cs);
                let slot = self.new_slot();
                let w3c = self.rng.pct(50);
                let props = self.nprops();
                self.push(t, Op::RootFromCtx { slot, ctx, w3c, props })
            }
            K::Finish => {
                let live = self.live_spans();
                if live.is_empty() {
                    return false;
                }
                // prefer spans created on this thread, sometimes take any (hand-off)
                let own: Vec<Slot> = live
                    .iter()
                    .copied()
                    .filter(|s| matches!(self.model.slot_ref(*s), SlotM::Span(sp) if sp.thread == t))
                    .collect();
                let slot = if !own.is_empty() && self.rng.pct(60) {
                    *self.rng.pick(&own)
                } else {
                    *self.rng.pick(&live)
                };
                let unwind = self.rng.pct(self.p.unwind_finish_pct);
                let ok = self.push(t, Op::Finish { slot, unwind });
                if ok && t != 0 && self.rng.pct(self.p.exit_after_finish_pct) {
                    self.push(t, Op::ThreadEnd);
                }
                ok
            }
            K::LocalEnter => {
                if depth >= self.p.max_depth {
                    return false;
                }
                let props = self.nprops();
                let inner = self.maybe_inner(props);
                self.push_inner(t, Op::LocalEnter { props }, inner)
            }
            K::LocalWithProps => {
                if !matches!(self.model.threads[t as usize].stack.last(), Some(LH::LSpan { dead: false, .. })) {
                    return false;
                }
                let n = 1 + self.rng.below(2) as u8;
                let inner = self.maybe_inner(n);
                self.push_inner(t, Op::LocalWithProps { n }, inner)
            }
            K::LocalAddProps => {
                let n = if self.rng.pct(8) { 0 } else { 1 + self.rng.below(2) as u8 };
                let inner = self.maybe_inner(n);
                self.push_inner(t, Op::LocalAddProps { n }, inner)
            }
            K::LocalAddEvent => {
                let n = self.nprops();
                let inner = self.maybe_inner(n);
                self.push_inner(t, Op::LocalAddEvent { n }, inner)
            }
            K::StartCollector => {
                if depth >= self.p.max_depth {
                    return false;
                }
                self.push(t, Op::StartCollector)
            }
            K::Pop => {
                if depth == 0 {
                    return false;
                }
                let into = match self.model.threads[t as usize].stack.last() {
                    Some(LH::Coll { .. }) if self.rng.pct(75) => Some(self.new_slot()),
                    _ => None,
                };
                self.push(t, Op::Pop { into })
            }
            K::Push => {
                let live = self.live_spans();
                let sets = self.sets();
                if live.is_empty() || sets.is_empty() {
                    return false;
                }
                let slot = *self.rng.pick(&live);
                let set = *self.rng.pick(&sets);
                self.push(t, Op::Push { slot, set })
            }
            K::ToRecords => {
                let sets = self.sets();
                if sets.is_empty() || self.ntraces == 0 {
                    return false;
                }
                let set = *self.rng.pick(&sets);
                let trace = self.rng.below(self.ntraces as u64) as u8;
                self.push(t, Op::ToRecords { set, trace })
            }
            K::Flush => self.push(t, Op::Flush),
            K::Cycle => self.push(t, Op::Cycle),
            K::Stats => self.push(t, Op::Stats),
            K::Sleep => {
                let ns = match self.rng.below(3) {
                    0 => self.interval / 2 + 1_000,
                    1 => self.interval + 5_000,
                    _ => 3_000,
                };
                self.push(t, Op::Sleep { ns })
            }
            K::Advance => {
                let ns = [1_000u64, 1_000_000, 3_000_000_000, 7_000_000_000, 3_600_000_000_000][self.rng.below(5) as usize];
                self.push(t, Op::Advance { ns })
            }
            K::Exit => {
                if t == 0 {
                    return false;
                }
                self.push(t, Op::ThreadEnd)
            }
            K::NewTask => {
                let wrap = self.rng.pick(self.p.task_wraps).clone();
                let span = if matches!(wrap, Wrap::EnterOnPoll) {
                    None
                } else {
                    let live = self.live_spans();
                    if live.is_empty() {
                        return false;
                    }
                    let roots: Vec<Slot> = live
                        .iter()
                        .copied()
                        .filter(|s| matches!(self.model.slot_ref(*s), SlotM::Span(sp) if sp.root_of.is_some()))
                        .collect();
                    Some(if !roots.is_empty() && self.rng.pct(45) {
                        *self.rng.pick(&roots)
                    } else {
                        *self.rng.pick(&live)
                    })
                };
                let task = self.new_slot();
                self.push(t, Op::NewTask { task, wrap, span })
            }
            K::PollTask => {
                let ts = self.tasks(true);
                if ts.is_empty() {
                    return false;
                }
                let task = *self.rng.pick(&ts);
                let wrap = match self.model.slot_ref(task) {
                    SlotM::Task(tk) => tk.wrap.clone(),
                    _ => return false,
                };
                let kind = match wrap {
                    Wrap::Stream => {
                        if self.rng.pct(50) {
                            PollKind::PollNext
                        } else {
                            PollKind::PollNextItem
                        }
                    }
                    Wrap::Sink => *self.rng.pick(&[PollKind::PollReady, PollKind::StartSend, PollKind::PollFlush, PollKind::PollClose, PollKind::PollClose, PollKind::PollCloseErr]),
                    _ => PollKind::Poll,
                };
                let ready = self.rng.pct(30);
                self.in_poll = true;
                self.cur_task = Some(task);
                let mut body = self.gen_body();
                self.in_poll = false;
                self.cur_task = None;
                if !ready && self.rng.pct(if wrap == Wrap::InSpanCatch { 40 } else { 8 }) {
                    // the body panics: the combinator between the two adapters contains it, or
                    // (other tasks) the caller of the poll does
                    body.push(Op::BodyPanic);
                }
                self.push_inner(t, Op::Poll { task, kind, ready }, body)
            }
            K::DropTask => {
                let ts = self.tasks(false);
                if ts.is_empty() {
                    return false;
                }
                let task = *self.rng.pick(&ts);
                self.push(t, Op::DropTask { task })
            }
            K::EmptyParents => {
                // a span created from an empty or all-no-op parent set: it belongs to no trace
                let slot = self.new_slot();
                let mut parents = vec![];
                if self.rng.pct(50) {
                    let n = self.new_slot();
                    if !self.push(t, Op::Noop { slot: n }) {
                        return false;
                    }
                    parents.push(n);
                }
                let props = self.nprops();
                let inner = self.maybe_inner(props);
                self.push_inner(
                    t,
                    Op::Child {
                        slot,
                        parents,
                        multi: true,
                        props,
                    },
                    inner,
                )
            }
            K::Collect => {
                // only worth it when a local span is open above the scope
                let st = &self.model.threads[t as usize].stack;
                let pos = match st.iter().rposition(|h| matches!(h, LH::Guard { .. } | LH::Coll { .. })) {
                    Some(p) => p,
                    None => return false,
                };
                if pos + 1 == st.len() {
                    return false;
                }
                let real = |h: &LH| matches!(h, LH::Guard { real: true } | LH::Coll { real: true });
                let dead_guards = st.len() - pos - 1;
                let strict_pops = strict() && real(&st[pos]);
                // (the scope parked by TeardownCalls is a real one the model does not know, and so
                // are the scopes of spans derived from it: no early collection in such programs)
                if strict() && !self.td_armed.is_empty() {
                    return false;
                }
                if strict_pops && st[..pos].iter().any(real) {
                    return false;
                }
                let into = if matches!(st[pos], LH::Coll { .. }) && self.rng.pct(80) { Some(self.new_slot()) } else { None };
                let ok = self.push(t, Op::Collect { into });
                if ok && strict_pops {
                    for _ in 0..dead_guards {
                        self.push(t, Op::Pop { into: None });
                    }
                }
                ok
            }
            K::UnwindScope => {
                let live = self.live_spans();
                if live.is_empty() {
                    return false;
                }
                let slot = *self.rng.pick(&live);
                let shape = self.rng.below(3) as u8;
                self.push(t, Op::UnwindScope { slot, shape })
            }
            K::Twin => {
                if depth != 0 {
                    return false;
                }
                let live = self.live_spans();
                let slot = if live.is_empty() || self.rng.pct(12) { None } else { Some(*self.rng.pick(&live)) };
                let f = self.rng.below(crate::corpus::NTWINS as u64) as u8;
                let arg = (self.ops.len() as u32) * 8 + self.rng.below(8) as u32;
                self.push(t, Op::Twin { f, arg, slot })
            }
            K::UserPanic => {
                let kind = self.rng.below(4) as u8;
                self.push(t, Op::UserPanic { kind })
            }
            K::EventNew => {
                let ev = self.new_slot();
                let n = self.nprops();
                let inner = self.maybe_inner(n);
                self.push_inner(t, Op::EventNew { ev, n }, inner)
            }
            K::AddEventFrom => {
                let evs: Vec<Slot> = self
                    .model
                    .slots
                    .iter()
                    .enumerate()
                    .filter_map(|(i, s)| if let SlotM::Event(..) = s { Some(i as Slot) } else { None })
                    .collect();
                if evs.is_empty() {
                    return false;
                }
                let ev = *self.rng.pick(&evs);
                let live = self.live_spans();
                let slot = if live.is_empty() || self.rng.pct(60) { None } else { Some(*self.rng.pick(&live)) };
                self.push(t, Op::AddEventFrom { slot, ev })
            }
            K::TeardownLate => {
                // the handles it parks are released by the thread's teardown, i.e. after everything
                // the thread opens later: nothing may be open below them
                if !self.model.threads[t as usize].stack.is_empty() {
                    return false;
                }
                self.td_armed.insert(t);
                self.push(t, Op::TeardownCalls { early: false })
            }
            K::LocalBurst => {
                if self.bursts >= 1 || !self.burst_ok {
                    return false;
                }
                // make it count: a scope with a local span open in it ...
                if self.rng.pct(70) {
                    if self.rng.pct(50) {
                        self.try_kind(t, K::SetLocalParent);
                    }
                    self.try_kind(t, K::LocalEnter);
                }
                self.bursts += 1;
                let n = 10240 - 3 + self.rng.below(8) as u32;
                let ok = self.push(t, Op::LocalBurst { n });
                // ... and what the thread does right after the limit was hit
                for k in [K::CtxCurrent, K::ChildLocal, K::LocalEnter, K::LocalAddEvent, K::CtxCurrent, K::Pop, K::CtxCurrent, K::ChildLocal, K::LocalAddEvent] {
                    if self.rng.pct(55) {
                        self.try_kind(t, k);
                    }
                }
                ok
            }
            K::CycleBurst => {
                if self.bursts >= 1 || !self.burst_ok || self.model.reporter.is_none() {
                    return false;
                }
                self.bursts += 1;
                // just past 2^10, ~6 000 and ~30 000 report intervals
                let n = [1030u32, 1100, 6100, 6100, 30500][self.rng.below(5) as usize];
                self.push(t, Op::CycleBurst { n })
            }
            K::SpanBurst => {
                if self.bursts >= 1 || !self.burst_ok {
                    return false;
                }
                let live = self.live_spans();
                if live.is_empty() {
                    return false;
                }
                self.bursts += 1;
                let slot = *self.rng.pick(&live);
                // around the powers of two below the default queue capacity, and just below it
                let base = [4090u32, 8185, 10195, 10195][self.rng.below(4) as usize];
                let n = base + self.rng.below(40) as u32;
                let ok = self.push(t, Op::SpanBurst { slot, n });
                // another thread finishes things right afterwards, then a flush must deliver it all
                if self.rng.pct(50) {
                    let act = self.active_threads();
                    let t2 = *self.rng.pick(&act);
                    self.try_kind(t2, K::Finish);
                    self.try_kind(t2, K::Flush);
                }
                ok
            }
            K::ScopeBurst => {
                if self.bursts >= 1 || !self.burst_ok {
                    return false;
                }
                let live = self.live_spans();
                if live.is_empty() {
                    return false;
                }
                self.bursts += 1;
                let slot = *self.rng.pick(&live);
                let n = 4096 - 6 + self.rng.below(12) as u32;
                self.push(t, Op::ScopeBurst { slot, n })
            }
            K::Join => {
                let c: Vec<u8> = self
                    .model
                    .threads
                    .iter()
                    .enumerate()
                    .filter(|(i, th)| *i != 0 && th.ended && !th.joined && *i != t as usize)
                    .map(|(i, _)| i as u8)
                    .collect();
                if c.is_empty() {
                    return false;
                }
                let jt = *self.rng.pick(&c);
                self.push(t, Op::Join { t: jt })
            }
        }
    }
}

pub fn gen_traces(rng: &mut Rng, n: usize, unsampled_pct: u64) -> Vec<TraceSpec> {
    let mut v: Vec<TraceSpec> = vec![];
    const SPECIAL_T: &[u128] = &[0, u128::MAX, 1u128 << 127, 1, (u64::MAX as u128) + 1];
    const SPECIAL_P: &[u64] = &[0, 1, 9, u64::MAX, 1 << 63];
    for i in 0..n {
        let mut tid = if rng.pct(25) {
            *rng.pick(SPECIAL_T)
        } else {
            ((rng.next() as u128) << 64) | rng.next() as u128
        };
        while v.iter().any(|t| t.trace_id == tid) {
            tid = ((rng.next() as u128) << 64) | (i as u128 + 100);
        }
        let parent = if rng.pct(50) { *rng.pick(SPECIAL_P) } else { rng.next() };
        v.push(TraceSpec {
            trace_id: tid,
            parent_span: parent,
            sampled: !rng.pct(unsampled_pct),
        });
    }
    v
}

pub fn gen_sched(rng: &mut Rng, p: &Profile, seed: u64, interval: u64) -> SchedCfg {
    let policy = match rng.below(8) {
        0 => Policy::Random { sticky: 0 },
        1 => Policy::Random { sticky: 50 },
        2 => Policy::Random { sticky: 80 },
        3 => Policy::Random { sticky: 95 },
        4 => Policy::Pct {
            depth: 1 + rng.below(3) as u8,
        },
        5 => Policy::Weighted { cw: 1, tw: 10, sticky: 50 },
        6 => Policy::Weighted { cw: 10, tw: 1, sticky: 30 },
        _ => Policy::Random { sticky: 70 },
    };
    let mut caps_total = 0;
    for (_, w) in p.ring_caps {
        caps_total += w;
    }
    let mut r = rng.below(caps_total);
    let mut cap = 0;
    for (c, w) in p.ring_caps {
        if r < *w {
            cap = *c;
            break;
        }
        r -= w;
    }
    let stall = if rng.pct(p.stall_pct) {
        Some((rng.below(4) as u32, (interval.max(10_000)) * (1 + rng.below(5))))
    } else {
        None
    };
    let mut wall_steps = vec![];
    if rng.pct(p.wallstep_pct) {
        let n = 1 + rng.below(2);
        for _ in 0..n {
            let mag = [1_000i64, 1_000_000, 3_600_000_000_000][rng.below(3) as usize];
            let d = if rng.pct(50) { mag } else { -mag };
            wall_steps.push((rng.below(6) as u32, d));
        }
    }
    SchedCfg {
        seed: mix(seed ^ 0x5ced),
        policy,
        atomic_cycles: rng.pct(p.atomic_pct),
        yield_mask: default_yield_mask(),
        explicit: None,
        clock_seed: mix(seed ^ 0xc10c),
        ring_cap: cap,
        max_steps: 40_000,
        stall,
        wall_steps,
        reporter_traces: rng.pct(p.reporter_traces_pct),
        adjacent_ids: rng.pct(12),
        report_stall: if rng.pct(p.stall_pct / 2) {
            Some((rng.below(5) as u32, 5_000 + rng.below(4) * interval.max(10_000)))
        } else {
            None
        },
    }
}

pub fn generate(prop: &str, seed: u64) -> Case {
    let mut p = profile(prop);
    swarm(&mut p, seed);
    generate_with(&p, seed)
}

/// thorough tier: wider bounds (longer programs, one more caller thread) on top of more runs
pub fn generate_tier(prop: &str, seed: u64, thorough: bool) -> Case {
    let mut p = profile(prop);
    if thorough {
        p.ops.1 = (p.ops.1 * 3 / 2).min(120);
        p.callers.1 = (p.callers.1 + 1).min(4);
        p.max_depth += 2;
    }
    if !thorough {
        // the limit-overflow, hot-loop and many-cycle bursts cost 10-1000 ms each: half as many of
        // them in the tier that runs on every change
        p.burst_pct = (p.burst_pct / 2).max(1);
    }
    swarm(&mut p, seed);
    generate_with(&p, seed)
}

pub fn generate_with(p: &Profile, seed: u64) -> Case {
    let mut rng = Rng::new(seed);
    let callers = p.callers.0 + rng.below(p.callers.1 - p.callers.0 + 1);
    let nthreads = 1 + callers as usize;
    let ntraces = if rng.pct(p.many_traces_pct) { 12 + rng.below(30) as usize } else { 2 + rng.below(6) as usize };
    let traces = gen_traces(&mut rng, ntraces, p.unsampled_pct);
    let str_seed = if rng.pct(p.utf8_pct) { rng.next() | 1 } else { 0 };
    let interval = *rng.pick(p.intervals);
    let cancelable = rng.pct(p.cancelable_pct);
    let sched = gen_sched(&mut rng, p, seed, interval);
    let nops = p.ops.0 + rng.below(p.ops.1 - p.ops.0 + 1);
    let mut g = Gen {
        rng,
        p,
        model: Model::new(&traces, str_seed, nthreads),
        ops: vec![],
        next_slot: 0,
        next_trace: 0,
        ntraces,
        interval,
        bursts: 0,
        burst_ok: false,
        in_poll: false,
        cur_task: None,
        td_armed: Default::default(),
        replaced: 0,
    };
    // limit-overflow bursts are expensive (10k spans / 4k scopes): a few per cent of the runs
    g.burst_ok = g.rng.pct(p.burst_pct);
    let late = g.rng.pct(p.late_reporter_pct);
    if late {
        // a few operations before any reporter exists (they must all be inert)
        let n = 1 + g.rng.below(9);
        for _ in 0..n {
            // (a LocalCollector works without a reporter: what it captures now can be pushed later)
            let k = *g.rng.pick(&[K::Root, K::LocalEnter, K::Pop, K::ChildLocal, K::LocalAddEvent, K::CtxCurrent, K::StartCollector, K::StartCollector, K::LocalEnter, K::LocalAddProps, K::Pop]);
            g.try_kind(0, k);
        }
    }
    let no_reporter = g.rng.pct(p.no_reporter_pct);
    if !no_reporter {
        g.push(
            0,
            Op::SetReporter {
                cancelable,
                interval_ns: interval,
            },
        );
    }
    // spawn callers (most at the start, the rest later)
    let mut to_spawn: Vec<u8> = (1..nthreads as u8).collect();
    let mut warm: Vec<u8> = vec![];
    while let Some(t) = to_spawn.first().copied() {
        if g.rng.pct(80) {
            to_spawn.remove(0);
            g.push(0, Op::Spawn { t });
            if g.rng.pct(p.teardown_early_pct) {
                // must be the thread's first operation: registered before fastrace's thread-locals
                g.push(t, Op::TeardownCalls { early: true });
            }
            if g.rng.pct(p.warm_pct) {
                warm.push(t);
            }
        } else {
            break;
        }
    }
    if g.rng.pct(p.warm_pct) {
        warm.push(0);
    }
    for t in warm {
        // warm: the thread's receiver is registered before anything interesting happens
        if g.next_trace < g.ntraces {
            let tr = g.next_trace as u8;
            g.next_trace += 1;
            let slot = g.new_slot();
            g.push(t, Op::Root { slot, trace: tr, props: 0 });
            g.push(t, Op::Finish { slot, unwind: false });
        }
    }
    let total_w: u64 = p.weights.iter().chain(p.extra.iter()).map(|(_, w)| *w).sum();
    let mut guard = 0;
    while (g.ops.len() as u64) < nops && guard < nops * 20 {
        guard += 1;
        if !to_spawn.is_empty() && g.rng.pct(10) {
            let t = to_spawn.remove(0);
            g.push(0, Op::Spawn { t });
            continue;
        }
        let act = g.active_threads();
        let t = *g.rng.pick(&act);
        let mut r = g.rng.below(total_w);
        let mut k = p.weights[0].0;
        for (kk, w) in p.weights.iter().chain(p.extra.iter()) {
            if r < *w {
                k = *kk;
                break;
            }
            r -= w;
        }
        g.try_kind(t, k);
    }
    // closing: finish most live spans on random threads, end the threads, join, tail
    for s in g.live_spans() {
        if g.rng.pct(90) {
            let act = g.active_threads();
            let t = *g.rng.pick(&act);
            g.push(t, Op::Finish { slot: s, unwind: false });
        }
    }
    for t in 1..nthreads as u8 {
        if !g.model.threads[t as usize].spawned {
            continue;
        }
        if !g.model.threads[t as usize].ended {
            g.push(t, Op::ThreadEnd);
        }
    }
    // main pops its own handles explicitly so that its scopes end before the tail
    while !g.model.threads[0].stack.is_empty() {
        let into = None;
        g.push(0, Op::Pop { into });
    }
    for t in 1..nthreads as u8 {
        if g.model.threads[t as usize].spawned && !g.model.threads[t as usize].joined {
            g.push(0, Op::Join { t });
        }
    }
    if p.live_tail {
        g.push(
            0,
            Op::Sleep {
                ns: 2 * interval + EPS_NS,
            },
        );
    }
    g.push(0, Op::Flush);
    g.push(0, Op::Flush);
    g.push(0, Op::Stats);
    g.push(0, Op::ThreadEnd);
    let mut sched = sched;
    if g.bursts > 0 {
        // thousands of queue operations in one call: not a livelock
        sched.max_steps = 2_000_000;
    }
    Case {
        prop: p.prop.to_string(),
        seed,
        threads: nthreads as u8,
        traces,
        str_seed,
        ops: g.ops,
        sched,
        checked: false,
    }
}

/// drop operations the model rejects (used by the minimiser after removing operations)
pub fn sanitize(case: &Case) -> Case {
    let mut m = Model::new(&case.traces, case.str_seed, case.threads as usize);
    let mut ops = vec![];
    for rec in &case.ops {
        let idx = ops.len();
        let snapshot = m.clone();
        if m.apply(idx, rec).is_ok() {
            ops.push(rec.clone());
        } else {
            m = snapshot;
        }
    }
    let mut c = case.clone();
    c.ops = ops;
    c
}
