//! #[trace] twin corpus (C15): every entry is a pair of functions with the same signature and the
//! same body tokens, one plain and one annotated with #[trace]. The corpus is fixed (the macro
//! runs at compile time, against /repo/fastrace-macro as it is on every build); what is seeded per
//! run is the arguments, the local parent, the poll schedule and the collector placement.

use std::cell::RefCell;
use std::fmt::Debug;
use std::future::Future;
use std::pin::Pin;
use std::task::{Context, Poll};

use fastrace::trace;

#[derive(Default)]
pub struct Log {
    pub entries: RefCell<Vec<String>>,
    /// func_path!() as evaluated inside the body (side channel, not compared between the twins)
    pub body_path: RefCell<Option<String>>,
    pub polls: RefCell<u32>,
}

impl Log {
    fn push(&self, s: impl Into<String>) {
        self.entries.borrow_mut().push(s.into());
    }
    fn path(&self, p: &str) {
        *self.body_path.borrow_mut() = Some(p.to_string());
    }
}

/// logs when it is dropped: drop order of body locals is a side effect of the body
struct Tell<'a>(&'a Log, &'static str);
impl Drop for Tell<'_> {
    fn drop(&mut self) {
        self.0.push(format!("drop {}", self.1));
    }
}

/// returns Pending n times (a suspension point inside an async body)
pub struct YieldN(pub u32);
impl Future for YieldN {
    type Output = ();
    fn poll(mut self: Pin<&mut Self>, _cx: &mut Context<'_>) -> Poll<()> {
        if self.0 == 0 {
            Poll::Ready(())
        } else {
            self.0 -= 1;
            Poll::Pending
        }
    }
}

/// defines `fn $p` and `#[trace(..)] fn $t` with identical signature and body tokens
macro_rules! twins {
    ([$($attr:tt)*] fn $p:ident / $t:ident ($($args:tt)*) -> $ret:ty { $($body:tt)* }) => {
        #[allow(unused_mut)]
        pub fn $p($($args)*) -> $ret { $($body)* }
        #[allow(unused_mut)]
        #[trace($($attr)*)]
        pub fn $t($($args)*) -> $ret { $($body)* }
    };
    ([$($attr:tt)*] async fn $p:ident / $t:ident ($($args:tt)*) -> $ret:ty { $($body:tt)* }) => {
        #[allow(unused_mut)]
        pub async fn $p($($args)*) -> $ret { $($body)* }
        #[allow(unused_mut)]
        #[trace($($attr)*)]
        pub async fn $t($($args)*) -> $ret { $($body)* }
    };
}

twins!([] fn p_sync_default / t_sync_default(a: u32, log: &Log) -> u32 {
    log.path(fastrace::func_path!());
    let _t = Tell(log, "local");
    log.push(format!("body {a}"));
    a.wrapping_mul(3) + 1
});

twins!([short_name = true] fn p_sync_short / t_sync_short(a: u32, log: &Log) -> u32 {
    log.path(fastrace::func_path!());
    log.push(format!("short {a}"));
    a ^ 0x55
});

twins!([name = "custom-name"] fn p_sync_named / t_sync_named(a: u32, log: &Log) -> String {
    log.path(fastrace::func_path!());
    log.push("named");
    format!("<{a}>")
});

#[allow(unused_mut)]
pub fn p_sync_props(a: u32, s: &str, log: &Log) -> usize {
    log.path(fastrace::func_path!());
    log.push(format!("props {a} {s}"));
    s.len() + a as usize
}
#[allow(unused_mut)]
#[trace(properties = { "k1": "v1", "a": "a is {a:?}", "s": "{s}-{a}", "esc": "{{literal}}", "mix": "{{{a}}}", "close": "limit}}", "open": "{{only", "both": "{{}}", "empty": "" })]
pub fn t_sync_props(a: u32, s: &str, log: &Log) -> usize {
    log.path(fastrace::func_path!());
    log.push(format!("props {a} {s}"));
    s.len() + a as usize
}


pub fn p_sync_generic<T: Debug + Clone>(x: T, log: &Log) -> T {
    log.path(fastrace::func_path!());
    log.push(format!("generic {x:?}"));
    x.clone()
}
#[trace]
pub fn t_sync_generic<T: Debug + Clone>(x: T, log: &Log) -> T {
    log.path(fastrace::func_path!());
    log.push(format!("generic {x:?}"));
    x.clone()
}

pub fn p_sync_lifetime<'a>(x: &'a str, log: &Log) -> &'a str {
    log.path(fastrace::func_path!());
    log.push(format!("lifetime {x}"));
    &x[x.len() / 2..]
}
#[trace(short_name = true, properties = { "x": "{x}" })]
pub fn t_sync_lifetime<'a>(x: &'a str, log: &Log) -> &'a str {
    log.path(fastrace::func_path!());
    log.push(format!("lifetime {x}"));
    &x[x.len() / 2..]
}

twins!([] fn p_sync_early / t_sync_early(a: u32, log: &Log) -> i32 {
    log.path(fastrace::func_path!());
    let _t = Tell(log, "early-guard");
    if a % 2 == 0 {
        log.push("early return");
        return -1;
    }
    log.push("late return");
    a as i32
});

fn parse_odd(a: u32) -> Result<u32, String> {
    if a % 2 == 1 {
        Ok(a)
    } else {
        Err(format!("even {a}"))
    }
}

twins!([name = "q"] fn p_sync_question / t_sync_question(a: u32, log: &Log) -> Result<u32, String> {
    log.path(fastrace::func_path!());
    log.push("before ?");
    let v = parse_odd(a)?;
    log.push("after ?");
    Ok(v + 1)
});

twins!([] fn p_sync_panics / t_sync_panics(a: u32, log: &Log) -> u32 {
    log.path(fastrace::func_path!());
    let _t = Tell(log, "unwound");
    log.push("before panic");
    if a % 3 == 0 {
        std::panic::resume_unwind(Box::new(format!("twin panic {a}")));
    }
    a
});

#[allow(unused_mut)]
pub fn p_sync_mut_arg(mut a: u32, mut v: Vec<u32>, log: &Log) -> Vec<u32> {
    log.path(fastrace::func_path!());
    a += 1;
    v.push(a);
    log.push(format!("mut {a} {}", v.len()));
    v
}
#[allow(unused_mut)]
#[trace(properties = { "n": "{a}" })]
pub fn t_sync_mut_arg(mut a: u32, mut v: Vec<u32>, log: &Log) -> Vec<u32> {
    log.path(fastrace::func_path!());
    a += 1;
    v.push(a);
    log.push(format!("mut {a} {}", v.len()));
    v
}


pub struct Foo(pub u32);
impl Foo {
    pub fn p_method(&self, a: u32, log: &Log) -> u32 {
        log.path(fastrace::func_path!());
        log.push(format!("method {} {a}", self.0));
        self.0 + a
    }
    #[trace]
    pub fn t_method(&self, a: u32, log: &Log) -> u32 {
        log.path(fastrace::func_path!());
        log.push(format!("method {} {a}", self.0));
        self.0 + a
    }
}

pub fn p_sync_nested(a: u32, log: &Log) -> u32 {
    log.path(fastrace::func_path!());
    log.push("outer before");
    let inner = Log::default();
    let r = p_sync_short(a, &inner);
    log.push(format!("inner log {:?}", inner.entries.borrow()));
    log.push("outer after");
    r + 1
}
#[trace(name = "outer")]
pub fn t_sync_nested(a: u32, log: &Log) -> u32 {
    log.path(fastrace::func_path!());
    log.push("outer before");
    let inner = Log::default();
    let r = t_sync_short(a, &inner);
    log.push(format!("inner log {:?}", inner.entries.borrow()));
    log.push("outer after");
    r + 1
}

twins!([] async fn p_async_default / t_async_default(a: u32, log: &Log) -> u32 {
    log.path(fastrace::func_path!());
    let _t = Tell(log, "async-local");
    log.push("async before");
    YieldN(a % 3).await;
    log.push("async after");
    a + 7
});

#[allow(unused_mut)]
pub async fn p_async_props(a: u32, log: &Log) -> u32 {
    log.path(fastrace::func_path!());
    YieldN(a % 2).await;
    log.push(format!("async props {a}"));
    a * 2
}
#[allow(unused_mut)]
#[trace(short_name = true, properties = { "a": "{a}", "k": "v" })]
pub async fn t_async_props(a: u32, log: &Log) -> u32 {
    log.path(fastrace::func_path!());
    YieldN(a % 2).await;
    log.push(format!("async props {a}"));
    a * 2
}


twins!([name = "eop", enter_on_poll = true] async fn p_async_eop / t_async_eop(a: u32, log: &Log) -> u32 {
    log.path(fastrace::func_path!());
    log.push("eop before");
    YieldN(1 + a % 3).await;
    log.push("eop after");
    a + 1
});

pub async fn p_async_generic<T: Debug + Clone>(x: T, log: &Log) -> T {
    log.path(fastrace::func_path!());
    YieldN(1).await;
    log.push(format!("async generic {x:?}"));
    x.clone()
}
#[trace(name = "ag")]
pub async fn t_async_generic<T: Debug + Clone>(x: T, log: &Log) -> T {
    log.path(fastrace::func_path!());
    YieldN(1).await;
    log.push(format!("async generic {x:?}"));
    x.clone()
}

twins!([] async fn p_async_question / t_async_question(a: u32, log: &Log) -> Result<u32, String> {
    log.path(fastrace::func_path!());
    log.push("async before ?");
    YieldN(a % 2).await;
    let v = parse_odd(a)?;
    log.push("async after ?");
    Ok(v)
});

twins!([] async fn p_async_panics / t_async_panics(a: u32, log: &Log) -> u32 {
    log.path(fastrace::func_path!());
    let _t = Tell(log, "async-unwound");
    YieldN(1).await;
    if a % 3 == 0 {
        std::panic::resume_unwind(Box::new(format!("async twin panic {a}")));
    }
    a
});

#[async_trait::async_trait(?Send)]
pub trait Tr {
    async fn p_am(&self, a: u32, log: &Log) -> u32;
    async fn t_am(&self, a: u32, log: &Log) -> u32;
}

#[async_trait::async_trait(?Send)]
impl Tr for Foo {
    async fn p_am(&self, a: u32, log: &Log) -> u32 {
        log.path(fastrace::func_path!());
        YieldN(a % 2).await;
        log.push(format!("am {} {a}", self.0));
        self.0 * a
    }
    #[trace(name = "am", properties = { "a": "{a}" })]
    async fn t_am(&self, a: u32, log: &Log) -> u32 {
        log.path(fastrace::func_path!());
        YieldN(a % 2).await;
        log.push(format!("am {} {a}", self.0));
        self.0 * a
    }
}

pub async fn p_async_nested(a: u32, log: &Log) -> u32 {
    log.path(fastrace::func_path!());
    let inner = Log::default();
    let x = p_sync_short(a, &inner);
    let y = p_async_default(a, &inner).await;
    log.push(format!("nested inner {:?}", inner.entries.borrow()));
    x + y
}
#[trace(name = "async-outer")]
pub async fn t_async_nested(a: u32, log: &Log) -> u32 {
    log.path(fastrace::func_path!());
    let inner = Log::default();
    let x = t_sync_short(a, &inner);
    let y = t_async_default(a, &inner).await;
    log.push(format!("nested inner {:?}", inner.entries.borrow()));
    x + y
}

/// a plain fn that returns a boxed future built by its last expression (the shape async-trait
/// generates, written by hand, with statements in front of it)
pub fn p_boxed(a: u32, log: &Log) -> Pin<Box<dyn Future<Output = u32>>> {
    log.push(format!("before pin {a}"));
    Box::pin(async move {
        YieldN(a % 2).await;
        a.wrapping_mul(2)
    })
}
#[trace(name = "boxed")]
pub fn t_boxed(a: u32, log: &Log) -> Pin<Box<dyn Future<Output = u32>>> {
    log.push(format!("before pin {a}"));
    Box::pin(async move {
        YieldN(a % 2).await;
        a.wrapping_mul(2)
    })
}

pub fn p_single_prop(a: u32, log: &Log) -> u32 {
    log.path(fastrace::func_path!());
    log.push(format!("single {a}"));
    a + 2
}
#[trace(short_name = true, properties = { "json": "{{\"k\": 1}}" })]
pub fn t_single_prop(a: u32, log: &Log) -> u32 {
    log.path(fastrace::func_path!());
    log.push(format!("single {a}"));
    a + 2
}

pub async fn p_single_fmt(a: u32, log: &Log) -> u32 {
    log.path(fastrace::func_path!());
    YieldN(a % 2).await;
    log.push(format!("single fmt {a}"));
    a + 3
}
#[trace(short_name = true, properties = { "only": "<{a}>}}" })]
pub async fn t_single_fmt(a: u32, log: &Log) -> u32 {
    log.path(fastrace::func_path!());
    YieldN(a % 2).await;
    log.push(format!("single fmt {a}"));
    a + 3
}

// ---------------------------------------------------------------------------------------------

pub const NTWINS: u8 = 23;

#[derive(Clone, Debug, PartialEq, serde::Serialize)]
pub struct Outcome {
    /// Ok(debug of the returned value) or Err(panic payload)
    pub ret: Result<String, String>,
    pub log: Vec<String>,
    pub body_path: Option<String>,
    pub polls: u32,
    pub dropped_early: bool,
}

fn payload(p: Box<dyn std::any::Any + Send>) -> String {
    if let Some(s) = p.downcast_ref::<String>() {
        s.clone()
    } else if let Some(s) = p.downcast_ref::<&str>() {
        s.to_string()
    } else {
        "non-string payload".into()
    }
}

fn sync_call<R: Debug>(log: &Log, f: impl FnOnce() -> R) -> Result<String, String> {
    let _ = log;
    match std::panic::catch_unwind(std::panic::AssertUnwindSafe(f)) {
        Ok(r) => Ok(format!("{r:?}")),
        Err(p) => Err(payload(p)),
    }
}

/// polls to completion (or drops after `drop_after` polls); a harness yield between polls lets
/// collector cycles fall anywhere
fn drive<R: Debug>(log: &Log, fut: impl Future<Output = R>, drop_after: Option<u32>) -> (Result<String, String>, bool) {
    let mut fut = Box::pin(fut);
    let waker = crate::tasks::noop_waker();
    let mut cx = Context::from_waker(&waker);
    loop {
        if let Some(n) = drop_after {
            if *log.polls.borrow() >= n {
                drop(fut);
                return (Ok("dropped".into()), true);
            }
        }
        *log.polls.borrow_mut() += 1;
        let r = std::panic::catch_unwind(std::panic::AssertUnwindSafe(|| fut.as_mut().poll(&mut cx)));
        match r {
            Ok(Poll::Ready(v)) => return (Ok(format!("{v:?}")), false),
            Ok(Poll::Pending) => crate::sim::yield_now(0),
            Err(p) => return (Err(payload(p)), false),
        }
    }
}

fn finish(log: Log, ret: Result<String, String>, dropped_early: bool) -> Outcome {
    Outcome {
        ret,
        log: log.entries.into_inner(),
        body_path: log.body_path.into_inner(),
        polls: log.polls.into_inner(),
        dropped_early,
    }
}

/// runs one variant of twin `f` with arguments derived from `arg`
pub fn run(f: u8, arg: u32, traced: bool) -> Outcome {
    let log = Log::default();
    let a = arg;
    let s = format!("s{}", arg % 7);
    // async twins: drop before completion for some arguments
    let drop_after = if arg % 5 == 4 && f != 19 { Some(1) } else { None };
    let foo = Foo(arg % 11);
    macro_rules! sync {
        ($p:expr, $t:expr) => {{
            let r = if traced { sync_call(&log, || $t) } else { sync_call(&log, || $p) };
            return finish(log, r, false);
        }};
    }
    macro_rules! asyn {
        ($p:expr, $t:expr) => {{
            let (r, d) = if traced { drive(&log, $t, drop_after) } else { drive(&log, $p, drop_after) };
            return finish(log, r, d);
        }};
    }
    match f {
        0 => sync!(p_sync_default(a, &log), t_sync_default(a, &log)),
        1 => sync!(p_sync_short(a, &log), t_sync_short(a, &log)),
        2 => sync!(p_sync_named(a, &log), t_sync_named(a, &log)),
        3 => sync!(p_sync_props(a, &s, &log), t_sync_props(a, &s, &log)),
        4 => sync!(p_sync_generic((a, s.clone()), &log), t_sync_generic((a, s.clone()), &log)),
        5 => sync!(p_sync_lifetime(&s, &log), t_sync_lifetime(&s, &log)),
        6 => sync!(p_sync_early(a, &log), t_sync_early(a, &log)),
        7 => sync!(p_sync_question(a, &log), t_sync_question(a, &log)),
        8 => sync!(p_sync_panics(a, &log), t_sync_panics(a, &log)),
        9 => sync!(p_sync_mut_arg(a, vec![a], &log), t_sync_mut_arg(a, vec![a], &log)),
        10 => sync!(foo.p_method(a, &log), foo.t_method(a, &log)),
        11 => sync!(p_sync_nested(a, &log), t_sync_nested(a, &log)),
        12 => asyn!(p_async_default(a, &log), t_async_default(a, &log)),
        13 => asyn!(p_async_props(a, &log), t_async_props(a, &log)),
        14 => asyn!(p_async_eop(a, &log), t_async_eop(a, &log)),
        15 => asyn!(p_async_generic(vec![a], &log), t_async_generic(vec![a], &log)),
        16 => asyn!(p_async_question(a, &log), t_async_question(a, &log)),
        17 => asyn!(p_async_panics(a, &log), t_async_panics(a, &log)),
        18 => asyn!(foo.p_am(a, &log), foo.t_am(a, &log)),
        19 => asyn!(p_async_nested(a, &log), t_async_nested(a, &log)),
        20 => asyn!(p_boxed(a, &log), t_boxed(a, &log)),
        21 => sync!(p_single_prop(a, &log), t_single_prop(a, &log)),
        _ => asyn!(p_single_fmt(a, &log), t_single_fmt(a, &log)),
    }
}

/// how the span(s) of one traced call must look
#[derive(Clone, Debug)]
pub enum NameRule {
    /// the configured name / the bare identifier
    Fixed(&'static str),
    /// func_path!() as the body sees it (sync), or that path with one trailing ::{{closure}}
    /// removed (async: the body runs one closure level deeper than the span creation)
    BodyPath,
}

#[derive(Clone, Debug)]
pub struct ExpSpan {
    pub name: NameRule,
    pub props: Vec<(String, String)>,
    /// one span per poll (enter_on_poll)
    pub per_poll: bool,
    pub is_async: bool,
    pub children: Vec<ExpSpan>,
}

fn leaf(name: NameRule, props: Vec<(String, String)>, is_async: bool) -> ExpSpan {
    ExpSpan {
        name,
        props,
        per_poll: false,
        is_async,
        children: vec![],
    }
}

fn kv(k: &str, v: String) -> (String, String) {
    (k.to_string(), v)
}

/// expected span tree of traced twin `f` called with `arg` (None: the call unwinds/returns before
/// anything else is recorded — the span itself is always there)
pub fn expected(f: u8, arg: u32) -> ExpSpan {
    let a = arg;
    let s = format!("s{}", arg % 7);
    match f {
        0 => leaf(NameRule::BodyPath, vec![], false),
        1 => leaf(NameRule::Fixed("t_sync_short"), vec![], false),
        2 => leaf(NameRule::Fixed("custom-name"), vec![], false),
        3 => leaf(
            NameRule::BodyPath,
            vec![
                kv("k1", "v1".into()),
                kv("a", format!("a is {a:?}")),
                kv("s", format!("{s}-{a}")),
                kv("esc", "{literal}".into()),
                kv("mix", format!("{{{a}}}")),
                kv("close", "limit}".into()),
                kv("open", "{only".into()),
                kv("both", "{}".into()),
                kv("empty", String::new()),
            ],
            false,
        ),
        4 => leaf(NameRule::BodyPath, vec![], false),
        5 => leaf(NameRule::Fixed("t_sync_lifetime"), vec![kv("x", s.clone())], false),
        6 => leaf(NameRule::BodyPath, vec![], false),
        7 => leaf(NameRule::Fixed("q"), vec![], false),
        8 => leaf(NameRule::BodyPath, vec![], false),
        9 => leaf(NameRule::BodyPath, vec![kv("n", format!("{a}"))], false),
        10 => leaf(NameRule::BodyPath, vec![], false),
        11 => ExpSpan {
            children: vec![leaf(NameRule::Fixed("t_sync_short"), vec![], false)],
            ..leaf(NameRule::Fixed("outer"), vec![], false)
        },
        12 => leaf(NameRule::BodyPath, vec![], true),
        13 => leaf(NameRule::Fixed("t_async_props"), vec![kv("a", format!("{a}")), kv("k", "v".into())], true),
        14 => ExpSpan {
            per_poll: true,
            ..leaf(NameRule::Fixed("eop"), vec![], true)
        },
        15 => leaf(NameRule::Fixed("ag"), vec![], true),
        16 => leaf(NameRule::BodyPath, vec![], true),
        17 => leaf(NameRule::BodyPath, vec![], true),
        18 => leaf(NameRule::Fixed("am"), vec![kv("a", format!("{a}"))], true),
        20 => leaf(NameRule::Fixed("boxed"), vec![], true),
        21 => leaf(NameRule::Fixed("t_single_prop"), vec![kv("json", "{\"k\": 1}".into())], false),
        22 => leaf(NameRule::Fixed("t_single_fmt"), vec![kv("only", format!("<{a}>}}"))], true),
        _ => ExpSpan {
            children: vec![
                leaf(NameRule::Fixed("t_sync_short"), vec![], false),
                // the nested async twin: its name is not reported through the outer log
                leaf(NameRule::Fixed("dst::corpus::t_async_default::{{closure}}"), vec![], true),
            ],
            ..leaf(NameRule::Fixed("async-outer"), vec![], true)
        },
    }
}

pub fn is_async(f: u8) -> bool {
    (12..=20).contains(&f) || f == 22
}
