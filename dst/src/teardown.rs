//! Tracing calls issued while a thread's local storage is being torn down (C07).

use std::any::Any;
use std::cell::RefCell;
use std::sync::Mutex;

use fastrace::prelude::*;

static PANICS: Mutex<Vec<String>> = Mutex::new(Vec::new());

pub fn take_panics() -> Vec<String> {
    std::mem::take(&mut *PANICS.lock().unwrap_or_else(|p| p.into_inner()))
}

struct Teardown {
    tag: u32,
    handles: Vec<Box<dyn Any>>,
}

fn calls(tag: u32) {
    // every kind of public call; none of the spans is named like a generated node ('x' prefix)
    let root = Span::root(format!("x{}r", tag), SpanContext::new(TraceId(0xDEAD_0000 + tag as u128), SpanId(1)));
    let _ = SpanContext::from_span(&root);
    let child = Span::enter_with_parent(format!("x{}c", tag), &root);
    child.add_property(|| ("xk", "xv"));
    child.add_event(Event::new("xe"));
    {
        let _g = root.set_local_parent();
        let _l = LocalSpan::enter_with_local_parent(format!("x{}l", tag)).with_property(|| ("xk", "xv"));
        LocalSpan::add_event(Event::new("xle"));
        LocalSpan::add_property(|| ("xk2", "xv2"));
        let _ = SpanContext::current_local_parent();
        let s2 = Span::enter_with_local_parent(format!("x{}s", tag));
        drop(s2);
    }
    let _ = LocalSpan::enter_with_local_parent("xnone");
    let _ = SpanContext::current_local_parent();
    let c = fastrace::local::LocalCollector::start();
    let _ls = LocalSpan::enter_with_local_parent("xcol");
    drop(_ls);
    let set = c.collect();
    root.push_child_spans(set.clone());
    let _ = set.to_span_records(SpanContext::new(TraceId(1), SpanId(2)));
    let _ = root.elapsed();
    root.cancel();
    drop(child);
    drop(root);
    let _ = SpanId::next_id();
}

impl Drop for Teardown {
    fn drop(&mut self) {
        let tag = self.tag;
        let handles = std::mem::take(&mut self.handles);
        let r = std::panic::catch_unwind(std::panic::AssertUnwindSafe(move || {
            let mut h = handles;
            while let Some(x) = h.pop() {
                drop(x);
            }
            calls(tag);
        }));
        if let Err(p) = r {
            let msg = if let Some(s) = p.downcast_ref::<&str>() {
                s.to_string()
            } else if let Some(s) = p.downcast_ref::<String>() {
                s.clone()
            } else {
                "panic".to_string()
            };
            PANICS.lock().unwrap_or_else(|p| p.into_inner()).push(format!("teardown {}: {}", tag, msg));
        }
    }
}

/// released newest first (the handles parked in a later entry were opened later)
struct TdList(Vec<Teardown>);
impl Drop for TdList {
    fn drop(&mut self) {
        while let Some(x) = self.0.pop() {
            drop(x);
        }
    }
}

thread_local! {
    static TD: RefCell<TdList> = const { RefCell::new(TdList(Vec::new())) };
}

/// registers the destructor. early: nothing of fastrace is touched here (the generator makes this
/// the thread's first operation), so this thread-local is destroyed after fastrace's own;
/// otherwise open handles are parked in it so that they are released during the teardown.
pub fn arm(early: bool, tag: u32) {
    let mut handles: Vec<Box<dyn Any>> = vec![];
    if !early {
        let root = Span::root(format!("x{}h", tag), SpanContext::new(TraceId(0xDEAD_8000 + tag as u128), SpanId(1)));
        let g = root.set_local_parent();
        let l = LocalSpan::enter_with_local_parent(format!("x{}hl", tag));
        handles.push(Box::new(root));
        handles.push(Box::new(g));
        handles.push(Box::new(l));
    }
    TD.with(|td| td.borrow_mut().0.push(Teardown { tag, handles }));
}
