//! Oracles: pure functions history x model -> violations (+ probes for the evidence files).

use std::collections::BTreeMap;

use crate::analysis::*;
use crate::exec::*;
use crate::gen::EPS_NS;
use crate::model::*;
use crate::prog::*;
use crate::sim::{Hard, Policy};

#[derive(Clone, Debug, serde::Serialize, serde::Deserialize, PartialEq)]
pub struct Violation {
    pub prop: String,
    pub clause: String,
    /// structural signature used for "same violation class" and for known findings
    pub sig: String,
    pub msg: String,
}

#[derive(Default, Debug)]
pub struct Verdict {
    pub violations: Vec<Violation>,
    pub probes: BTreeMap<&'static str, u64>,
    /// the run hit the property's trigger (counts towards distinct_nontrivial)
    pub trigger: bool,
}

impl Verdict {
    pub fn probe(&mut self, name: &'static str, n: u64) {
        *self.probes.entry(name).or_insert(0) += n;
    }
    pub fn add(&mut self, prop: &str, clause: &str, sig: String, msg: String) {
        // one violation per (clause, sig) is enough
        if self.violations.iter().any(|v| v.clause == clause && v.sig == sig) {
            return;
        }
        self.violations.push(Violation {
            prop: prop.to_string(),
            clause: clause.to_string(),
            sig,
            msg,
        });
    }
}

fn kind_name(op: &Op) -> &'static str {
    match op {
        Op::SetReporter { .. } => "SetReporter",
        Op::ReplaceReporter { .. } => "ReplaceReporter",
        Op::Spawn { .. } => "Spawn",
        Op::Join { .. } => "Join",
        Op::ThreadEnd => "ThreadEnd",
        Op::Flush => "Flush",
        Op::Cycle => "Cycle",
        Op::Sleep { .. } => "Sleep",
        Op::Advance { .. } => "Advance",
        Op::Stats => "Stats",
        Op::Root { .. } => "Root",
        Op::Noop { .. } => "Noop",
        Op::Child { .. } => "Child",
        Op::ChildLocal { .. } => "ChildLocal",
        Op::AddProps { .. } => "AddProps",
        Op::AddEvent { .. } => "AddEvent",
        Op::Finish { .. } => "Finish",
        Op::Cancel { .. } => "Cancel",
        Op::Elapsed { .. } => "Elapsed",
        Op::CtxSpan { .. } => "CtxSpan",
        Op::CtxCurrent { .. } => "CtxCurrent",
        Op::RootFromCtx { .. } => "RootFromCtx",
        Op::SetLocalParent { .. } => "SetLocalParent",
        Op::LocalEnter { .. } => "LocalEnter",
        Op::LocalWithProps { .. } => "LocalWithProps",
        Op::LocalAddProps { .. } => "LocalAddProps",
        Op::LocalAddEvent { .. } => "LocalAddEvent",
        Op::StartCollector => "StartCollector",
        Op::Pop { .. } => "Pop",
        Op::Push { .. } => "Push",
        Op::ToRecords { .. } => "ToRecords",
        Op::NewTask { .. } => "NewTask",
        Op::Poll { .. } => "Poll",
        Op::DropTask { .. } => "DropTask",
        Op::Twin { .. } => "Twin",
        Op::TeardownCalls { .. } => "TeardownCalls",
        Op::LocalBurst { .. } => "LocalBurst",
        Op::HoldChild => "HoldChild",
        Op::EventNew { .. } => "EventNew",
        Op::UserPanic { .. } => "UserPanic",
        Op::BodyPanic => "BodyPanic",
        Op::AddEventFrom { .. } => "AddEventFrom",
        Op::Collect { .. } => "Collect",
        Op::UnwindScope { .. } => "UnwindScope",
        Op::ScopeBurst { .. } => "ScopeBurst",
        Op::CycleBurst { .. } => "CycleBurst",
        Op::SpanBurst { .. } => "SpanBurst",
    }
}

pub fn op_kind(a: &Analysis, o: usize) -> &'static str {
    a.case.ops.get(o).map(|r| kind_name(&r.op)).unwrap_or("?")
}

pub fn evaluate(prop: &str, case: &Case, model: &Model, hist: &History) -> Verdict {
    let mut v = Verdict::default();
    if let Some(h) = &hist.out.hard {
        let (clause, sig, msg) = match h {
            Hard::Deadlock(d) => ("deadlock", "deadlock".to_string(), format!("simulated threads deadlocked: {}", d)),
            Hard::StepCap => (
                "livelock",
                "stepcap".to_string(),
                "step cap reached inside the run (livelock or unbounded wait)".to_string(),
            ),
        };
        v.add("C07", clause, sig, msg);
        return v;
    }
    let a = Analysis::new(case, model, hist);
    common_probes(&a, &mut v);
    match prop {
        "C01" => c01(&a, &mut v),
        "C02" => crate::oracle2::c02(&a, &mut v),
        "C03" => crate::oracle2::c03(&a, &mut v),
        "C04" => crate::oracle2::c04(&a, &mut v),
        "C05" => crate::oracle2::c05(&a, &mut v),
        "C06" => crate::oracle2::c06(&a, &mut v),
        "C08" => crate::oracle2::c08(&a, &mut v),
        "C10" => crate::oracle2::c10(&a, &mut v),
        "C11" => crate::oracle2::c11(&a, &mut v),
        "C16" => crate::oracle2::c16(&a, &mut v),
        "C07" => crate::oracle3::c07(&a, &mut v),
        "C09" => crate::oracle3::c09(&a, &mut v),
        "C13" => crate::oracle3::c13(&a, &mut v, "C13"),
        "C14" => crate::oracle3::c13(&a, &mut v, "C14"),
        "C15" => crate::oracle3::c15(&a, &mut v),
        "C17" => crate::oracle3::c17(&a, &mut v),
        "C18" => crate::oracle3::c18(&a, &mut v),
        _ => {}
    }
    v
}

fn common_probes(a: &Analysis, v: &mut Verdict) {
    v.probe("runs", 1);
    v.probe("cycles", a.hist.out.cycles as u64);
    v.probe("batches_nonempty", a.hist.batches.iter().filter(|b| !b.recs.is_empty()).count() as u64);
    if a.any_full {
        v.probe("ring_full_push", 1);
    }
    v.probe("parked_commands", a.parked_count as u64);
    v.probe("lost_submits", a.lost_submit_ops.len() as u64);
    v.probe("lost_starts", a.lost_starts.len() as u64);
    v.probe("stall_windows", a.hist.out.stall_windows.len() as u64);
    v.probe("multi_parent_same_trace", a.model.multi_parent_same_trace as u64);
    v.probe("mixed_sampled_parents", a.model.mixed_sampled_parents as u64);
    v.probe("op_panics", a.hist.ops.iter().filter(|o| o.panic.is_some()).count() as u64);
    // faults that actually fired in this run (not merely configured)
    let logx = &a.hist.out.log;
    v.probe("fault.ring_full_events", logx.iter().filter(|e| e.kind == fastrace::verif::P_PUSH_OUTCOME && e.b == 1).count() as u64);
    v.probe("fault.runs_with_reduced_ring", (a.case.sched.ring_cap != 0) as u64);
    v.probe("fault.collector_stall", logx.iter().filter(|e| e.kind == crate::sim::K_STALL && e.b == 0).count() as u64);
    v.probe("fault.slow_reporter", logx.iter().filter(|e| e.kind == crate::sim::K_STALL && e.b == 1).count() as u64);
    v.probe("fault.wall_clock_step", logx.iter().filter(|e| e.kind == crate::sim::K_WALLSTEP).count() as u64);
    v.probe("fault.thread_exit", logx.iter().filter(|e| e.kind == crate::sim::K_THREAD_FIN).count() as u64);
    v.probe("fault.command_after_tls_gone", logx.iter().filter(|e| e.kind == fastrace::verif::P_TLS_GONE).count() as u64);
    v.probe("fault.signal_lost_in_exit_flush", a.cmds.iter().filter(|c| c.lost && c.force && c.parked).count() as u64);
    let count_ops = |f: &dyn Fn(&Op) -> bool| a.case.ops.iter().filter(|r| f(&r.op) || r.inner.iter().any(|o| f(o))).count() as u64;
    v.probe("fault.cancel_calls", count_ops(&|o| matches!(o, Op::Cancel { .. })));
    v.probe("fault.unwind_through_scope", count_ops(&|o| matches!(o, Op::UnwindScope { .. })));
    v.probe("fault.reporter_replaced", count_ops(&|o| matches!(o, Op::ReplaceReporter { .. })));
    v.probe("fault.span_released_by_unwinding_frame", count_ops(&|o| matches!(o, Op::Finish { unwind: true, .. })));
    v.probe("fault.poll_body_panics", count_ops(&|o| matches!(o, Op::BodyPanic)));
    v.probe("fault.checked_build_runs", a.case.checked as u64);
    v.probe("fault.many_cycles_bursts", count_ops(&|o| matches!(o, Op::CycleBurst { .. })));
    v.probe("fault.hot_loop_span_bursts", count_ops(&|o| matches!(o, Op::SpanBurst { .. })));
    v.probe("fault.adjacent_id_prefixes", a.case.sched.adjacent_ids as u64);
    v.probe("swarm_runs", crate::gen::is_swarm(a.case.seed) as u64);
    v.probe("fault.user_code_panics_inside_call", count_ops(&|o| matches!(o, Op::UserPanic { .. })));
    v.probe("prepared_events_recorded_later", count_ops(&|o| matches!(o, Op::AddEventFrom { .. })));
    v.probe("fault.teardown_calls", count_ops(&|o| matches!(o, Op::TeardownCalls { .. })));
    v.probe("fault.scope_limit_bursts", count_ops(&|o| matches!(o, Op::LocalBurst { .. } | Op::ScopeBurst { .. })));
    v.probe("fault.scope_collected_with_open_spans", count_ops(&|o| matches!(o, Op::Collect { .. })));
    v.probe("fault.task_dropped", count_ops(&|o| matches!(o, Op::DropTask { .. })));
    v.probe("fault.reentrant_closure_ops", a.case.ops.iter().filter(|r| !r.inner.is_empty() && !matches!(r.op, Op::Poll { .. })).count() as u64);
    v.probe("fault.no_or_late_reporter", (!matches!(a.case.ops.first().map(|r| &r.op), Some(Op::SetReporter { .. }))) as u64);
    // recv_empty_then_push_then_exit: a thread finished while a collector sat at P_RECV_EMPTY of
    // its queue, having pushed after the empty pop
    let log = &a.hist.out.log;
    let mut rx_closed = 0;
    for e in log.iter() {
        if e.kind == fastrace::verif::P_RX_CLOSED {
            rx_closed += 1;
        }
    }
    v.probe("receivers_closed", rx_closed);
    let mut i = 0;
    let mut straddle = 0u64;
    while i < log.len() {
        if log[i].kind == fastrace::verif::P_RECV_EMPTY {
            // events between this one and the collector's next event
            let ctid = log[i].tid;
            let mut j = i + 1;
            let mut pushed = false;
            let mut fin = false;
            while j < log.len() && log[j].tid != ctid {
                if log[j].kind == fastrace::verif::P_PUSH_OUTCOME && log[j].b == 0 {
                    pushed = true;
                }
                if log[j].kind == crate::sim::K_THREAD_FIN && pushed {
                    fin = true;
                }
                j += 1;
            }
            if pushed && fin {
                straddle += 1;
            }
        }
        i += 1;
    }
    v.probe("recv_empty_then_push_then_exit", straddle);
}

pub fn permitted_omission(a: &Analysis, r: &ExpRec) -> bool {
    let o = outer(r.submit_op);
    a.relaxed(r.collect) || a.lost_submit_ops.contains(&o) || a.tls_gone_ops.contains(&o) || !a.op_executed(o) || a.hist.ops[o].panic.is_some()
}

/// position (batch index) at which expectation i was first delivered
pub fn delivered_batch(a: &Analysis, i: usize) -> Option<usize> {
    // any twin counts (same-trace multi-parent replicas are indistinguishable)
    let mut best: Option<usize> = None;
    // expectations that a delivered record cannot be told apart from: identical ones, and those of
    // the same span in the same trace when a parent's id was never observed
    let r = &a.model.recs[i];
    let key = (r.trace_id, r.node, r.parent);
    if let Some(b) = a.memo_batch.borrow().get(&key) {
        return *b;
    }
    let known = |p: &PRef| a.parent_id(p).is_some();
    let alts: Vec<usize> = match a.by_key.get(&(r.trace_id, r.node)) {
        Some(l) => l
            .iter()
            .copied()
            .filter(|&j| {
                let x = &a.model.recs[j];
                x.parent == r.parent || !known(&x.parent) || !known(&r.parent)
            })
            .collect(),
        None => vec![i],
    };
    for j in alts {
        for &d in &a.matched[j] {
            let b = a.delivered[d].batch;
            best = Some(best.map(|x: usize| x.min(b)).unwrap_or(b));
        }
    }
    a.memo_batch.borrow_mut().insert(key, best);
    best
}

pub fn rec_sig(a: &Analysis, r: &ExpRec) -> String {
    let o = outer(r.submit_op);
    let sub_t = a.case.ops[o].t;
    let col = &a.model.collects[r.collect];
    format!(
        "{}:{}:{}:{}",
        if r.local { "local" } else { "span" },
        op_kind(a, o),
        if sub_t == col.thread { "rootthread" } else { "otherthread" },
        if r.from_set.is_some() { "pushed" } else { "direct" },
    )
}

// ---------------------------------------------------------------------------------------------
// C01

fn c01(a: &Analysis, v: &mut Verdict) {
    let m = a.model;
    if m.cancelable() {
        return;
    }
    // (a) exactly once / nothing spurious
    for d in &a.delivered {
        if d.exp.is_none() {
            let r = a.rec(d);
            let known = d.node.map(|n| m.recs.iter().any(|x| x.node == n && x.trace_id == r.trace_id)).unwrap_or(false);
            if known {
                v.add(
                    "C01",
                    "C01.once",
                    "duplicate".into(),
                    format!(
                        "record {} (trace {:032x}, parent {:016x}) delivered more often than the program recorded it (batch {})",
                        r.name.chars().take(24).collect::<String>(),
                        r.trace_id,
                        r.parent_id,
                        d.batch
                    ),
                );
            } else {
                v.add(
                    "C01",
                    "C01.once",
                    "spurious".into(),
                    format!(
                        "record {} (trace {:032x}) was delivered but no such span was recorded in that trace",
                        r.name.chars().take(24).collect::<String>(),
                        r.trace_id
                    ),
                );
            }
        }
    }
    // (b,c) every flush delivers everything that happened before it
    let mut trigger = false;
    for (f, rec) in a.case.ops.iter().enumerate() {
        if !matches!(rec.op, Op::Flush) || !a.op_executed(f) || a.hist.ops[f].panic.is_some() {
            continue;
        }
        if m.reporter_op.map(|r| !a.hb.before(outer(r), f)).unwrap_or(true) {
            continue;
        }
        let end_step = a.hist.ops[f].end_step;
        for (i, r) in m.recs.iter().enumerate() {
            let o = outer(r.submit_op);
            if !a.hb.before(o, f) || permitted_omission(a, r) {
                continue;
            }
            let ok = match delivered_batch(a, i) {
                Some(b) => a.hist.batches[b].step <= end_step,
                None => false,
            };
            if !ok {
                v.add(
                    "C01",
                    "C01.flush",
                    rec_sig(a, r),
                    format!(
                        "span n{} of trace {:032x} finished (op {}) before flush {} was called, but was not delivered when the flush returned",
                        r.node,
                        r.trace_id,
                        a.describe_op(o),
                        f
                    ),
                );
            }
        }
    }
    // (d) liveness: a quiet sleep of 2*interval+eps on main after everything was joined
    let interval = m.reporter.map(|r| r.1).unwrap_or(0);
    for (s, rec) in a.case.ops.iter().enumerate() {
        let ns = match rec.op {
            Op::Sleep { ns } if rec.t == 0 => ns,
            _ => continue,
        };
        if ns < 2 * interval + EPS_NS || !a.op_executed(s) {
            continue;
        }
        // every other program thread must have been joined before the sleep
        let all_joined = (1..a.case.threads).all(|t| {
            a.case
                .ops
                .iter()
                .enumerate()
                .any(|(j, r)| matches!(r.op, Op::Join { t: jt } if jt == t) && a.hb.before(j, s))
                || !a.case.ops.iter().any(|r| matches!(r.op, Op::Spawn { t: st } if st == t))
        });
        if !all_joined {
            continue;
        }
        let (t0, t1) = (a.hist.ops[s].t0, a.hist.ops[s].t1);
        if a.hist.out.stall_windows.iter().any(|(b, e)| *b <= t1 && *e >= t0) {
            continue;
        }
        if m.reporter_op.map(|r| !a.hb.before(outer(r), s)).unwrap_or(true) {
            continue;
        }
        // a backlog of thousands of commands takes the collector longer than two (simulated)
        // report intervals to work through: "about one report interval" is not claimed for that
        if a.case.ops.iter().any(|r| matches!(r.op, Op::SpanBurst { .. } | Op::ScopeBurst { .. })) {
            continue;
        }
        v.probe("live_windows_checked", 1);
        for (i, r) in m.recs.iter().enumerate() {
            let o = outer(r.submit_op);
            if !a.hb.before(o, s) || permitted_omission(a, r) {
                continue;
            }
            let ok = match delivered_batch(a, i) {
                Some(b) => a.hist.batches[b].t <= t1,
                None => false,
            };
            if !ok {
                v.add(
                    "C01",
                    "C01.live",
                    rec_sig(a, r),
                    format!(
                        "span n{} of trace {:032x} finished (op {}) but was not delivered within 2 report intervals (+{} ns) of quiet simulated time",
                        r.node,
                        r.trace_id,
                        a.describe_op(o),
                        EPS_NS
                    ),
                );
            }
        }
    }
    // trigger: a span finished on a thread that exits right afterwards, or a cycle overlapping a
    // finish (a cycle began before the finish op ended and ended after it began)
    for (o, rec) in a.case.ops.iter().enumerate() {
        if let Op::Finish { .. } = rec.op {
            if rec.t != 0 {
                let next = a.case.ops.iter().skip(o + 1).find(|r| r.t == rec.t);
                if matches!(next.map(|r| &r.op), Some(Op::ThreadEnd)) {
                    trigger = true;
                    v.probe("finish_then_exit", 1);
                }
            }
        }
    }
    if a.hist.out.cycles >= 2 {
        trigger = true;
    }
    let _ = Policy::Random { sticky: 0 };
    v.trigger = trigger;
}

/// abstract collector states observed in a run: at every cycle end (receivers drained, receivers
/// closed, size class of the batch) and at every Stats probe
pub fn abstract_states(h: &History) -> Vec<u64> {
    let mut out = vec![];
    let (mut drained, mut closed) = (0u64, 0u64);
    let log = &h.out.log;
    for (i, e) in log.iter().enumerate() {
        match e.kind {
            k if k == fastrace::verif::P_CYCLE_BEGIN => {
                drained = 0;
                closed = 0;
            }
            k if k == fastrace::verif::P_DRAIN_RX => drained += 1,
            k if k == fastrace::verif::P_RX_CLOSED => closed += 1,
            k if k == fastrace::verif::P_CYCLE_END => {
                let mut n = 0;
                for f in log.iter().skip(i + 1).take(4) {
                    if f.kind == crate::sim::K_REPORT {
                        n = f.b.min(9);
                        break;
                    }
                }
                out.push(crate::sim::mix(drained << 16 | closed << 8 | n));
            }
            _ => {}
        }
    }
    for o in &h.ops {
        if let Ret::Stats(s) = &o.ret {
            out.push(crate::sim::mix(
                0xabc ^ (s.active as u64) << 32 ^ (s.buffered as u64) << 20 ^ (s.danglings as u64) << 8 ^ s.receivers as u64,
            ));
        }
    }
    out
}
