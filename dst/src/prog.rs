//! Programs (scripts of operations), cases (program + knobs + schedule), naming of generated items.

use serde::{Deserialize, Serialize};

use crate::sim::SchedCfg;

pub type Slot = u16;

#[derive(Clone, Debug, Serialize, Deserialize, PartialEq)]
pub enum Wrap {
    /// fastrace::future::FutureExt::in_span(span)
    InSpan,
    /// FutureExt::enter_on_poll(name)
    EnterOnPoll,
    /// in_span(span) around enter_on_poll(name)
    InSpanEnterOnPoll,
    /// in_span(span) around a combinator that catches a panic of the inner poll (and reports
    /// Pending) around enter_on_poll(name): the inner poll may unwind through the per-poll span
    InSpanCatch,
    /// fastrace_futures::StreamExt::in_span
    Stream,
    /// fastrace_futures::SinkExt::in_span
    Sink,
}

#[derive(Clone, Copy, Debug, Serialize, Deserialize, PartialEq, Eq)]
pub enum PollKind {
    Poll,
    PollNext,
    /// poll_next that yields an item (Ready(Some)) when not `ready`
    PollNextItem,
    PollReady,
    StartSend,
    PollFlush,
    PollClose,
    /// poll_close that completes with an error when `ready`
    PollCloseErr,
}

#[derive(Clone, Debug, Serialize, Deserialize, PartialEq)]
pub enum Op {
    // ---- environment
    SetReporter { cancelable: bool, interval_ns: u64 },
    Spawn { t: u8 },
    Join { t: u8 },
    /// last operation of every thread: drops the thread's remaining local handles LIFO; on main
    /// additionally joins every unjoined thread and drops every remaining slot
    ThreadEnd,
    Flush,
    Cycle,
    Sleep { ns: u64 },
    Advance { ns: u64 },
    Stats,
    // ---- thread-safe spans
    Root { slot: Slot, trace: u8, props: u8 },
    Noop { slot: Slot },
    /// multi=false and one parent: enter_with_parent, otherwise enter_with_parents
    Child { slot: Slot, parents: Vec<Slot>, multi: bool, props: u8 },
    ChildLocal { slot: Slot, props: u8 },
    AddProps { slot: Slot, n: u8 },
    AddEvent { slot: Slot, n: u8 },
    /// `unwind`: the span is released by a frame that is unwinding (a caught panic)
    Finish {
        slot: Slot,
        #[serde(default)]
        unwind: bool,
    },
    Cancel { slot: Slot },
    Elapsed { slot: Slot },
    CtxSpan { slot: Slot, ctx: Slot },
    CtxCurrent { ctx: Slot },
    /// Span::root(name, ctx) where ctx was extracted earlier; `trace` names the table entry that
    /// describes the new root (its trace id / parent are filled in by the model from the context)
    RootFromCtx { slot: Slot, ctx: Slot, w3c: bool, props: u8 },
    // ---- thread-local
    SetLocalParent { slot: Slot },
    LocalEnter { props: u8 },
    LocalWithProps { n: u8 },
    LocalAddProps { n: u8 },
    LocalAddEvent { n: u8 },
    StartCollector,
    /// drops the top local handle of the thread; a local collector is collected into `into`
    Pop { into: Option<Slot> },
    Push { slot: Slot, set: Slot },
    ToRecords { set: Slot, trace: u8 },
    // ---- async adapters (bodies are the `inner` operations of the Poll op)
    NewTask { task: Slot, wrap: Wrap, span: Option<Slot> },
    Poll { task: Slot, kind: PollKind, ready: bool },
    DropTask { task: Slot },
    /// set_reporter() once more, mid-run, with the same configuration: the collector starts from a
    /// fresh state (what it held of the traces in flight is gone) and a second collector thread runs
    ReplaceReporter { cancelable: bool, interval_ns: u64 },
    /// n collector cycles in a row (a long quiet period measured in report intervals)
    CycleBurst { n: u32 },
    /// the thread creates and finishes n children of the span back to back, without being
    /// pre-empted (a hot loop: thousands of commands inside one report interval)
    SpanBurst { slot: Slot, n: u32 },
    /// caller-supplied code unwinds out of a tracing call (a name conversion or a property closure
    /// that panics; the harness catches it): the call must leave the thread's context untouched
    UserPanic { kind: u8 },
    /// builds an Event value now (its property closure runs now); it is recorded later
    EventNew { ev: Slot, n: u8 },
    /// records a prepared event: on the span in `slot`, or (None) through the local parent
    AddEventFrom { slot: Option<Slot>, ev: Slot },
    /// only as the last step of a poll body of an InSpanCatch task: the body panics
    BodyPanic,
    /// only inside a poll body: creates a child span of the local parent that the scripted future
    /// keeps across the suspension point; it is released when the future itself is dropped
    HoldChild,
    // ---- #[trace] twins
    /// calls the plain and then the #[trace] twin `f` of the corpus with arguments derived from
    /// `arg`; the traced call runs with the span in `slot` as local parent (None: no local parent)
    Twin { f: u8, arg: u32, slot: Option<Slot> },
    /// tracing calls issued from a thread-local destructor while the thread is being torn down;
    /// early = the destructor is registered before fastrace's own thread-locals (runs after them)
    TeardownCalls { early: bool },
    /// ends the innermost scope (guard or collector) of the thread although local spans entered in
    /// it are still open; their handles stay alive and are dropped later (they are dead by then)
    Collect { into: Option<Slot> },
    /// a panic unwinding through a local-parent scope with an open local span (caught by the host)
    /// a caught panic unwinds through scopes. shape 0: set_local_parent(slot) + a local span;
    /// 1: set_local_parent(slot) + a LocalCollector (never collected) + a local span;
    /// 2: only local spans, inside whatever scope the thread is in, which carries on afterwards
    UnwindScope {
        slot: Slot,
        #[serde(default)]
        shape: u8,
    },
    /// enters and exits n local spans one after another (scope span limit)
    LocalBurst { n: u32 },
    /// opens n nested local-parent scopes of the span and closes them again (scope stack limit)
    ScopeBurst { slot: Slot, n: u32 },
}

#[derive(Clone, Debug, Serialize, Deserialize, PartialEq)]
pub struct OpRec {
    pub t: u8,
    pub op: Op,
    /// operations executed inside this operation: in its property closure, or in the body of the
    /// scripted future for a Poll
    #[serde(default, skip_serializing_if = "Vec::is_empty")]
    pub inner: Vec<Op>,
}

#[derive(Clone, Debug, Serialize, Deserialize, PartialEq)]
pub struct TraceSpec {
    #[serde(with = "hex128")]
    pub trace_id: u128,
    pub parent_span: u64,
    pub sampled: bool,
}

#[derive(Clone, Debug, Serialize, Deserialize)]
pub struct Case {
    pub prop: String,
    pub seed: u64,
    pub threads: u8,
    pub traces: Vec<TraceSpec>,
    /// 0 = plain ASCII names, otherwise the seed of arbitrary UTF-8 tails
    pub str_seed: u64,
    pub ops: Vec<OpRec>,
    pub sched: SchedCfg,
    /// run by the build in which fastrace's own debug assertions are compiled in (replays must use
    /// the same build)
    #[serde(default)]
    pub checked: bool,
}

/// node ids: outer operation i -> 16*i, its k-th inner operation -> 16*i + 1 + k
pub fn node_id(idx: usize, inner: Option<usize>) -> u32 {
    (idx as u32) * 16 + inner.map(|k| 1 + k as u32).unwrap_or(0)
}

fn junk(seed: u64, salt: u64) -> String {
    if seed == 0 {
        return String::new();
    }
    let mut x = crate::sim::mix(seed ^ salt.wrapping_mul(0x9E3779B97F4A7C15));
    let mut next = || {
        x ^= x << 13;
        x ^= x >> 7;
        x ^= x << 17;
        x
    };
    let len = match next() % 16 {
        0 => 0,
        1 => 200 + next() % 2000,
        2 => 65536,
        _ => 1 + next() % 12,
    } as usize;
    let mut s = String::with_capacity(len + 1);
    s.push(':');
    const POOL: &[char] = &[
        'a', 'Z', '0', ' ', '"', '\\', '\n', '\t', '\0', '{', '}', ',', '=', 'é', 'ß', 'ж', '中', '文', '🦀',
        '\u{200b}', '\u{feff}', '\u{7f}', '%', '/', ':', '-',
    ];
    while s.len() < len {
        s.push(POOL[(next() % POOL.len() as u64) as usize]);
    }
    s
}

pub fn span_name(case_str_seed: u64, node: u32) -> String {
    format!("n{}{}", node, junk(case_str_seed, node as u64 * 4))
}

pub fn event_name(case_str_seed: u64, node: u32) -> String {
    format!("e{}{}", node, junk(case_str_seed, node as u64 * 4 + 1))
}

pub fn prop_kv(case_str_seed: u64, node: u32, j: usize) -> (String, String) {
    // arbitrary-string cases also produce empty values (keys stay unique: they attribute)
    if case_str_seed != 0 && crate::sim::mix(case_str_seed ^ ((node as u64) << 20) ^ j as u64) % 12 == 0 {
        return (format!("k{}.{}{}", node, j, junk(case_str_seed, (node as u64) << 8 | (j as u64) << 2 | 2)), String::new());
    }
    (
        format!("k{}.{}{}", node, j, junk(case_str_seed, (node as u64) << 8 | (j as u64) << 2 | 2)),
        format!("v{}.{}{}", node, j, junk(case_str_seed, (node as u64) << 8 | (j as u64) << 2 | 3)),
    )
}

/// the node id encoded at the start of a generated name ("n123:junk" -> 123)
pub fn parse_node(name: &str, prefix: char) -> Option<u32> {
    let mut it = name.chars();
    if it.next()? != prefix {
        return None;
    }
    let digits: String = it.take_while(|c| c.is_ascii_digit()).collect();
    digits.parse().ok()
}

impl Case {
    pub fn to_json(&self) -> String {
        serde_json::to_string_pretty(self).unwrap()
    }
    pub fn from_json(s: &str) -> Result<Case, String> {
        serde_json::from_str(s).map_err(|e| e.to_string())
    }
}

mod hex128 {
    use serde::{Deserialize, Deserializer, Serializer};
    pub fn serialize<S: Serializer>(v: &u128, s: S) -> Result<S::Ok, S::Error> {
        s.serialize_str(&format!("{:032x}", v))
    }
    pub fn deserialize<'de, D: Deserializer<'de>>(d: D) -> Result<u128, D::Error> {
        let s = String::deserialize(d)?;
        u128::from_str_radix(&s, 16).map_err(serde::de::Error::custom)
    }
}
