//! Executes a case under the simulator and records the history.

use std::cell::UnsafeCell;
use std::collections::HashMap;
use std::sync::{Arc, Mutex};
use std::time::Duration;

use fastrace::collector::{Config, Reporter, SpanRecord};
use fastrace::local::{LocalCollector, LocalSpans};
use fastrace::prelude::*;
use fastrace::verif as fv;

use crate::model::OpRef;
use crate::prog::*;
use crate::sim::{self, RunOut};

#[derive(Clone, Debug, PartialEq)]
pub struct EvRec {
    pub name: String,
    pub ts: u64,
    pub props: Vec<(String, String)>,
}

#[derive(Clone, Debug, PartialEq)]
pub struct Rec {
    pub trace_id: u128,
    pub span_id: u64,
    pub parent_id: u64,
    pub begin: u64,
    pub dur: u64,
    pub name: String,
    pub props: Vec<(String, String)>,
    pub events: Vec<EvRec>,
}

impl Rec {
    pub fn from(r: &SpanRecord) -> Rec {
        Rec {
            trace_id: r.trace_id.0,
            span_id: r.span_id.0,
            parent_id: r.parent_id.0,
            begin: r.begin_time_unix_ns,
            dur: r.duration_ns,
            name: r.name.to_string(),
            props: r.properties.iter().map(|(k, v)| (k.to_string(), v.to_string())).collect(),
            events: r
                .events
                .iter()
                .map(|e| EvRec {
                    name: e.name.to_string(),
                    ts: e.timestamp_unix_ns,
                    props: e.properties.iter().map(|(k, v)| (k.to_string(), v.to_string())).collect(),
                })
                .collect(),
        }
    }
}

#[derive(Clone, Debug)]
pub struct Batch {
    pub step: u32,
    pub t: u64,
    pub tid: usize,
    pub recs: Vec<Rec>,
}

#[derive(Clone, Debug, PartialEq)]
pub struct StatsOut {
    pub active: usize,
    pub buffered: usize,
    pub danglings: usize,
    pub receivers: usize,
}

#[derive(Clone, Debug, PartialEq)]
pub enum Ret {
    None,
    Ctx(Option<(u128, u64, bool)>),
    Elapsed(Option<u64>),
    Stats(StatsOut),
    Records(Vec<Rec>),
    Value(String),
    Twin(Box<TwinRet>),
}

#[derive(Clone, Debug, PartialEq)]
pub struct TwinRet {
    pub plain: crate::corpus::Outcome,
    pub traced: crate::corpus::Outcome,
    /// current_local_parent() as the traced call saw it
    pub parent_ctx: Option<(u128, u64, bool)>,
    /// the follow-up call of the short twin made in the same scope after the traced call
    pub followup: crate::corpus::Outcome,
}

#[derive(Clone, Debug)]
pub struct OpOut {
    pub executed: bool,
    pub start_step: u32,
    pub end_step: u32,
    pub t0: u64,
    pub t1: u64,
    pub tid: usize,
    pub ret: Ret,
    pub panic: Option<String>,
    pub inner_rets: Vec<(OpRef, Ret)>,
    /// span ids learned at creation (SpanContext::from_span on the new handle: a pure read)
    pub learned: Vec<(OpRef, u64)>,
}

impl Default for OpOut {
    fn default() -> Self {
        OpOut {
            executed: false,
            start_step: 0,
            end_step: 0,
            t0: 0,
            t1: 0,
            tid: usize::MAX,
            ret: Ret::None,
            panic: None,
            inner_rets: vec![],
            learned: vec![],
        }
    }
}

pub struct History {
    /// panics caught inside thread-local destructors (C07)
    pub teardown_panics: Vec<String>,
    pub out: RunOut,
    pub ops: Vec<OpOut>,
    pub batches: Vec<Batch>,
    pub closure_calls: HashMap<OpRef, u32>,
    /// simulated thread id of each program thread
    pub tids: Vec<usize>,
    pub deps: Vec<Vec<usize>>,
}

// ---------------------------------------------------------------------------------------------
// dependencies between operations (the hand-off protocol) and static happens-before

#[derive(Default, Clone)]
struct SlotAcc {
    last_excl: Option<usize>,
    readers: Vec<usize>,
}

pub enum Acc {
    Read(Slot),
    Excl(Slot),
}

pub fn accesses(op: &Op) -> Vec<Acc> {
    use Acc::*;
    match op {
        Op::Root { slot, .. } | Op::Noop { slot } | Op::ChildLocal { slot, .. } => vec![Excl(*slot)],
        Op::Child { slot, parents, .. } => {
            let mut v = vec![Excl(*slot)];
            v.extend(parents.iter().map(|p| Read(*p)));
            v
        }
        Op::AddProps { slot, .. }
        | Op::AddEvent { slot, .. }
        | Op::Cancel { slot }
        | Op::Elapsed { slot }
        | Op::SetLocalParent { slot } => vec![Read(*slot)],
        Op::Finish { slot, .. } => vec![Excl(*slot)],
        Op::CtxSpan { slot, ctx } => vec![Read(*slot), Excl(*ctx)],
        Op::CtxCurrent { ctx } => vec![Excl(*ctx)],
        Op::RootFromCtx { slot, ctx, .. } => vec![Excl(*slot), Read(*ctx)],
        Op::Pop { into: Some(s) } | Op::Collect { into: Some(s) } => vec![Excl(*s)],
        Op::EventNew { ev, .. } => vec![Excl(*ev)],
        Op::AddEventFrom { slot: Some(s), ev } => vec![Read(*s), Excl(*ev)],
        Op::AddEventFrom { slot: None, ev } => vec![Excl(*ev)],
        Op::UnwindScope { slot, .. } | Op::ScopeBurst { slot, .. } | Op::SpanBurst { slot, .. } | Op::Twin { slot: Some(slot), .. } => vec![Read(*slot)],
        Op::Push { slot, set } => vec![Read(*slot), Read(*set)],
        Op::ToRecords { set, .. } => vec![Read(*set)],
        Op::NewTask { task, span, .. } => {
            let mut v = vec![Excl(*task)];
            if let Some(s) = span {
                v.push(Excl(*s));
            }
            v
        }
        Op::Poll { task, .. } | Op::DropTask { task } => vec![Excl(*task)],
        _ => vec![],
    }
}

pub fn compute_deps(case: &Case) -> Vec<Vec<usize>> {
    let n = case.ops.len();
    let mut deps: Vec<Vec<usize>> = vec![vec![]; n];
    let mut slots: HashMap<Slot, SlotAcc> = HashMap::new();
    let mut spawn_op: HashMap<u8, usize> = HashMap::new();
    let mut end_op: HashMap<u8, usize> = HashMap::new();
    let mut first_seen: HashMap<u8, bool> = HashMap::new();
    for (i, rec) in case.ops.iter().enumerate() {
        let mut d: Vec<usize> = vec![];
        if rec.t != 0 && !first_seen.contains_key(&rec.t) {
            first_seen.insert(rec.t, true);
            if let Some(&s) = spawn_op.get(&rec.t) {
                d.push(s);
            }
        }
        let mut accs = accesses(&rec.op);
        for io in &rec.inner {
            accs.extend(accesses(io));
        }
        for a in accs {
            match a {
                Acc::Read(s) => {
                    let e = slots.entry(s).or_default();
                    if let Some(x) = e.last_excl {
                        d.push(x);
                    }
                    e.readers.push(i);
                }
                Acc::Excl(s) => {
                    let e = slots.entry(s).or_default();
                    if let Some(x) = e.last_excl {
                        d.push(x);
                    }
                    d.extend(e.readers.drain(..));
                    e.last_excl = Some(i);
                }
            }
        }
        match &rec.op {
            Op::Spawn { t } => {
                spawn_op.insert(*t, i);
            }
            Op::Join { t } => {
                if let Some(&e) = end_op.get(t) {
                    d.push(e);
                }
            }
            Op::ThreadEnd => {
                end_op.insert(rec.t, i);
                if rec.t == 0 {
                    for (_, &e) in end_op.iter() {
                        if e != i {
                            d.push(e);
                        }
                    }
                    for (_, e) in slots.iter() {
                        if let Some(x) = e.last_excl {
                            d.push(x);
                        }
                        d.extend(e.readers.iter().copied());
                    }
                }
            }
            _ => {}
        }
        d.retain(|&x| x != i);
        d.sort_unstable();
        d.dedup();
        deps[i] = d;
    }
    deps
}

/// static happens-before: hb[i] = set of ops that happen before op i (program order + deps)
pub struct Hb {
    n: usize,
    words: usize,
    bits: Vec<u64>,
}

impl Hb {
    pub fn compute(case: &Case, deps: &[Vec<usize>]) -> Hb {
        let n = case.ops.len();
        let words = (n + 63) / 64;
        let mut bits = vec![0u64; n * words.max(1)];
        let mut last_of_thread: HashMap<u8, usize> = HashMap::new();
        for i in 0..n {
            let mut preds: Vec<usize> = deps[i].clone();
            if let Some(&p) = last_of_thread.get(&case.ops[i].t) {
                preds.push(p);
            }
            for p in preds {
                for w in 0..words {
                    let v = bits[p * words + w];
                    bits[i * words + w] |= v;
                }
                bits[i * words + p / 64] |= 1 << (p % 64);
            }
            last_of_thread.insert(case.ops[i].t, i);
        }
        Hb { n, words, bits }
    }

    /// a happens-before b (strict)
    pub fn before(&self, a: usize, b: usize) -> bool {
        if a >= self.n || b >= self.n {
            return false;
        }
        (self.bits[b * self.words + a / 64] >> (a % 64)) & 1 == 1
    }

    pub fn before_eq(&self, a: usize, b: usize) -> bool {
        a == b || self.before(a, b)
    }
}

// ---------------------------------------------------------------------------------------------

enum SlotV {
    Empty,
    Span(Span),
    Set(LocalSpans),
    Ctx(Option<SpanContext>),
    Task(crate::tasks::TaskBox),
    Event(Event),
}

enum LocalH {
    Guard(#[allow(dead_code)] Box<dyn std::any::Any>),
    LSpan(#[allow(dead_code)] LocalSpan),
    Coll(LocalCollector),
}

pub struct Shared {
    pub case: Case,
    pub deps: Vec<Vec<usize>>,
    slots: Vec<UnsafeCell<SlotV>>,
    pub results: Mutex<Vec<OpOut>>,
    pub batches: Arc<Mutex<Vec<Batch>>>,
    pub closure_calls: Mutex<HashMap<OpRef, u32>>,
    pub handles: Mutex<HashMap<u8, u64>>,
    pub joined: Mutex<Vec<u8>>,
    pub tids: Mutex<Vec<usize>>,
}

// Slots are accessed under the hand-off protocol (creation before use, uses before take), every
// edge of which goes through the simulator mutex; exactly one simulated thread runs at a time.
unsafe impl Sync for Shared {}
unsafe impl Send for Shared {}

pub struct ThreadCtx {
    pub t: u8,
    stack: Vec<LocalH>,
    pub shared: Arc<Shared>,
    pub inner_rets: Vec<(OpRef, Ret)>,
    pub learned: Vec<(OpRef, u64)>,
    pub cur_cell: Option<Arc<crate::tasks::ScriptCell>>,
}

fn learn(ctx: &mut ThreadCtx, op: OpRef, sp: &Span) {
    if let Some(c) = SpanContext::from_span(sp) {
        ctx.learned.push((op, c.span_id.0));
    }
}

struct Rep {
    batches: Arc<Mutex<Vec<Batch>>>,
    traces: bool,
}

impl Reporter for Rep {
    fn report(&mut self, spans: Vec<SpanRecord>) {
        let recs: Vec<Rec> = spans.iter().map(Rec::from).collect();
        let (step, t) = {
            let st = sim::lock_st();
            (st.step as u32, st.clock)
        };
        let tid = sim::my_tid();
        let mut b = self.batches.lock().unwrap();
        let idx = b.len();
        b.push(Batch { step, t, tid, recs });
        let n = b[idx].recs.len();
        drop(b);
        sim::log_ev(sim::K_REPORT, idx as u64, n as u64);
        sim::report_stall(idx);
        if self.traces {
            // a reporter that is itself instrumented (names start with 'x': ignored by the oracles)
            let r = Span::root("xrep", SpanContext::new(TraceId(0xDEAD_4000 + idx as u128), SpanId(1)));
            let _g = r.set_local_parent();
            let _l = LocalSpan::enter_with_local_parent("xrep-local");
            LocalSpan::add_event(Event::new("xrep-ev"));
        }
    }
}

fn slot_mut(sh: &Shared, s: Slot) -> &mut SlotV {
    unsafe { &mut *sh.slots[s as usize].get() }
}

fn slot_span(sh: &Shared, s: Slot) -> &Span {
    match unsafe { &*sh.slots[s as usize].get() } {
        SlotV::Span(sp) => sp,
        _ => panic!("harness: slot {} holds no span", s),
    }
}

pub fn max_slot(case: &Case) -> usize {
    let mut m = 0usize;
    for rec in &case.ops {
        for a in accesses(&rec.op).into_iter().chain(rec.inner.iter().flat_map(accesses)) {
            let s = match a {
                Acc::Read(s) | Acc::Excl(s) => s,
            };
            m = m.max(s as usize + 1);
        }
    }
    m
}

fn props_of(case: &Case, op: OpRef, n: u8) -> Vec<(String, String)> {
    (0..n as usize).map(|j| prop_kv(case.str_seed, op, j)).collect()
}

/// body of every property closure: count, run the inner operations, produce the properties
fn closure_body(ctx_ptr: *mut ThreadCtx, idx: usize, op: OpRef, n: u8, inner: &[Op]) -> Vec<(String, String)> {
    let ctx = unsafe { &mut *ctx_ptr };
    {
        let mut c = ctx.shared.closure_calls.lock().unwrap();
        *c.entry(op).or_insert(0) += 1;
    }
    sim::log_ev(sim::K_CLOSURE, op as u64, 0);
    for (k, iop) in inner.iter().enumerate() {
        let r = node_id(idx, Some(k));
        sim::log_ev(sim::K_SUBOP_BEGIN, r as u64, 0);
        let ret = exec_op(ctx, idx, r, iop, &[]);
        sim::log_ev(sim::K_SUBOP_END, r as u64, 0);
        ctx.inner_rets.push((r, ret));
    }
    props_of(&ctx.shared.case, op, n)
}

pub fn ctx_tuple(c: Option<SpanContext>) -> Option<(u128, u64, bool)> {
    c.map(|c| (c.trace_id.0, c.span_id.0, c.sampled))
}

pub fn exec_op(ctx: &mut ThreadCtx, idx: usize, op: OpRef, o: &Op, inner: &[Op]) -> Ret {
    let sh = ctx.shared.clone();
    let case = &sh.case;
    let cp: *mut ThreadCtx = ctx;
    match o {
        Op::SetReporter { cancelable, interval_ns } => {
            fastrace::set_reporter(
                Rep {
                    batches: sh.batches.clone(),
                    traces: case.sched.reporter_traces,
                },
                Config::default()
                    .cancelable(*cancelable)
                    .report_interval(Duration::from_nanos(*interval_ns)),
            );
            Ret::None
        }
        Op::ReplaceReporter { cancelable, interval_ns } => {
            fastrace::set_reporter(
                Rep {
                    batches: sh.batches.clone(),
                    traces: case.sched.reporter_traces,
                },
                Config::default()
                    .cancelable(*cancelable)
                    .report_interval(Duration::from_nanos(*interval_ns)),
            );
            Ret::None
        }
        Op::Spawn { t } => {
            let t = *t;
            let sh2 = sh.clone();
            let h = sim::spawn(&format!("caller-{t}"), Box::new(move || thread_main(sh2, t)));
            sh.handles.lock().unwrap().insert(t, h);
            Ret::None
        }
        Op::Join { t } => {
            let h = sh.handles.lock().unwrap().get(t).copied();
            if let Some(h) = h {
                sim::join(h);
                sh.joined.lock().unwrap().push(*t);
            }
            Ret::None
        }
        Op::ThreadEnd => {
            while let Some(h) = ctx.stack.pop() {
                drop(h);
            }
            if ctx.t == 0 {
                let hs: Vec<(u8, u64)> = {
                    let h = sh.handles.lock().unwrap();
                    let j = sh.joined.lock().unwrap();
                    let mut v: Vec<(u8, u64)> = h.iter().filter(|(t, _)| !j.contains(t)).map(|(t, h)| (*t, *h)).collect();
                    v.sort();
                    v
                };
                for (_, h) in hs {
                    sim::join(h);
                }
                for s in 0..sh.slots.len() {
                    let v = std::mem::replace(slot_mut(&sh, s as Slot), SlotV::Empty);
                    drop(v);
                }
            }
            Ret::None
        }
        Op::Flush => {
            fastrace::flush();
            sim::log_ev(sim::K_FLUSH_RET, 0, 0);
            Ret::None
        }
        Op::Cycle => {
            fv::run_collector_cycle();
            Ret::None
        }
        Op::CycleBurst { n } => {
            for _ in 0..*n {
                fv::run_collector_cycle();
            }
            Ret::None
        }
        Op::SpanBurst { slot, n } => {
            let name = span_name(case.str_seed, op);
            let parent = slot_span(&sh, *slot);
            sim::no_yield(true);
            for _ in 0..*n {
                let c = Span::enter_with_parent(name.clone(), parent);
                learn(ctx, op, &c);
                drop(c);
            }
            sim::no_yield(false);
            Ret::None
        }
        Op::Sleep { ns } => {
            sim::sleep_ns(*ns);
            Ret::None
        }
        Op::Advance { ns } => {
            sim::advance_ns(*ns);
            Ret::None
        }
        Op::Stats => {
            let s = fv::collector_stats();
            Ret::Stats(StatsOut {
                active: s.active_collectors,
                buffered: s.buffered_span_sets,
                danglings: s.danglings,
                receivers: s.receivers,
            })
        }
        Op::Root { slot, trace, props } => {
            let spec = &case.traces[*trace as usize];
            let c = SpanContext::new(TraceId(spec.trace_id), SpanId(spec.parent_span)).sampled(spec.sampled);
            let mut sp = Span::root(span_name(case.str_seed, op), c);
            if *props > 0 {
                sp = sp.with_properties(|| closure_body(cp, idx, op, *props, inner));
            }
            learn(ctx, op, &sp);
            *slot_mut(&sh, *slot) = SlotV::Span(sp);
            Ret::None
        }
        Op::RootFromCtx { slot, ctx: cs, w3c, props } => {
            let c = match slot_mut(&sh, *cs) {
                SlotV::Ctx(c) => *c,
                _ => None,
            };
            let sp = match c {
                Some(c) => {
                    let c = if *w3c {
                        SpanContext::decode_w3c_traceparent(&c.encode_w3c_traceparent()).expect("w3c round trip")
                    } else {
                        c
                    };
                    let mut sp = Span::root(span_name(case.str_seed, op), c);
                    if *props > 0 {
                        sp = sp.with_properties(|| closure_body(cp, idx, op, *props, inner));
                    }
                    sp
                }
                None => Span::noop(),
            };
            learn(ctx, op, &sp);
            *slot_mut(&sh, *slot) = SlotV::Span(sp);
            Ret::None
        }
        Op::Noop { slot } => {
            *slot_mut(&sh, *slot) = SlotV::Span(Span::noop());
            Ret::None
        }
        Op::Child {
            slot,
            parents,
            multi,
            props,
        } => {
            let name = span_name(case.str_seed, op);
            let mut sp = if !*multi && parents.len() == 1 {
                Span::enter_with_parent(name, slot_span(&sh, parents[0]))
            } else {
                let ps: Vec<&Span> = parents.iter().map(|p| slot_span(&sh, *p)).collect();
                Span::enter_with_parents(name, ps)
            };
            if *props > 0 {
                sp = sp.with_properties(|| closure_body(cp, idx, op, *props, inner));
            }
            learn(ctx, op, &sp);
            *slot_mut(&sh, *slot) = SlotV::Span(sp);
            Ret::None
        }
        Op::ChildLocal { slot, props } => {
            let mut sp = Span::enter_with_local_parent(span_name(case.str_seed, op));
            if *props > 0 {
                sp = sp.with_properties(|| closure_body(cp, idx, op, *props, inner));
            }
            learn(ctx, op, &sp);
            *slot_mut(&sh, *slot) = SlotV::Span(sp);
            Ret::None
        }
        Op::AddProps { slot, n } => {
            let sp = slot_span(&sh, *slot);
            sp.add_properties(|| closure_body(cp, idx, op, *n, inner));
            Ret::None
        }
        Op::AddEvent { slot, n } => {
            if *n > 0 && op % 5 == 0 {
                // the deprecated entry point (same semantics: the closure builds the event now)
                #[allow(deprecated)]
                Event::add_to_parent(event_name(case.str_seed, op), slot_span(&sh, *slot), || {
                    closure_body(cp, idx, op, *n, inner).into_iter().map(|(k, v)| (k.into(), v.into())).collect::<Vec<(std::borrow::Cow<'static, str>, std::borrow::Cow<'static, str>)>>()
                });
                return Ret::None;
            }
            let mut ev = Event::new(event_name(case.str_seed, op));
            if *n > 0 {
                ev = ev.with_properties(|| closure_body(cp, idx, op, *n, inner));
            }
            slot_span(&sh, *slot).add_event(ev);
            Ret::None
        }
        Op::Finish { slot, unwind } => {
            let v = std::mem::replace(slot_mut(&sh, *slot), SlotV::Empty);
            if *unwind {
                struct HarnessUnwind;
                let r = std::panic::catch_unwind(std::panic::AssertUnwindSafe(move || {
                    let _owned = v;
                    std::panic::resume_unwind(Box::new(HarnessUnwind));
                }));
                if let Err(p) = r {
                    if !p.is::<HarnessUnwind>() {
                        std::panic::resume_unwind(p);
                    }
                }
            } else {
                drop(v);
            }
            Ret::None
        }
        Op::Cancel { slot } => {
            slot_span(&sh, *slot).cancel();
            Ret::None
        }
        Op::Elapsed { slot } => Ret::Elapsed(slot_span(&sh, *slot).elapsed().map(|d| d.as_nanos() as u64)),
        Op::CtxSpan { slot, ctx: cs } => {
            let c = SpanContext::from_span(slot_span(&sh, *slot));
            *slot_mut(&sh, *cs) = SlotV::Ctx(c);
            Ret::Ctx(ctx_tuple(c))
        }
        Op::CtxCurrent { ctx: cs } => {
            let c = SpanContext::current_local_parent();
            *slot_mut(&sh, *cs) = SlotV::Ctx(c);
            Ret::Ctx(ctx_tuple(c))
        }
        Op::SetLocalParent { slot } => {
            let g = slot_span(&sh, *slot).set_local_parent();
            ctx.stack.push(LocalH::Guard(Box::new(g)));
            Ret::None
        }
        Op::StartCollector => {
            ctx.stack.push(LocalH::Coll(LocalCollector::start()));
            Ret::None
        }
        Op::LocalEnter { props } => {
            let mut ls = LocalSpan::enter_with_local_parent(span_name(case.str_seed, op));
            if *props > 0 {
                ls = ls.with_properties(|| closure_body(cp, idx, op, *props, inner));
            }
            ctx.stack.push(LocalH::LSpan(ls));
            Ret::None
        }
        Op::LocalWithProps { n } => {
            match ctx.stack.pop() {
                Some(LocalH::LSpan(ls)) => {
                    let ls = ls.with_properties(|| closure_body(cp, idx, op, *n, inner));
                    ctx.stack.push(LocalH::LSpan(ls));
                }
                Some(h) => ctx.stack.push(h),
                None => {}
            }
            Ret::None
        }
        Op::LocalAddProps { n } => {
            LocalSpan::add_properties(|| closure_body(cp, idx, op, *n, inner));
            Ret::None
        }
        Op::LocalAddEvent { n } => {
            if *n > 0 && op % 5 == 0 {
                #[allow(deprecated)]
                Event::add_to_local_parent(event_name(case.str_seed, op), || {
                    closure_body(cp, idx, op, *n, inner).into_iter().map(|(k, v)| (k.into(), v.into())).collect::<Vec<(std::borrow::Cow<'static, str>, std::borrow::Cow<'static, str>)>>()
                });
                return Ret::None;
            }
            let mut ev = Event::new(event_name(case.str_seed, op));
            if *n > 0 {
                ev = ev.with_properties(|| closure_body(cp, idx, op, *n, inner));
            }
            LocalSpan::add_event(ev);
            Ret::None
        }
        Op::Pop { into } => {
            match ctx.stack.pop() {
                Some(LocalH::Coll(c)) => match into {
                    Some(s) => {
                        let set = c.collect();
                        *slot_mut(&sh, *s) = SlotV::Set(set);
                    }
                    None => drop(c),
                },
                Some(h) => drop(h),
                None => {}
            }
            Ret::None
        }
        Op::Push { slot, set } => {
            let ls = match slot_mut(&sh, *set) {
                SlotV::Set(s) => s.clone(),
                _ => panic!("harness: no set in slot"),
            };
            slot_span(&sh, *slot).push_child_spans(ls);
            Ret::None
        }
        Op::ToRecords { set, trace } => {
            let ls = match slot_mut(&sh, *set) {
                SlotV::Set(s) => s.clone(),
                _ => panic!("harness: no set in slot"),
            };
            let spec = &case.traces[*trace as usize];
            let recs = ls.to_span_records(SpanContext::new(TraceId(spec.trace_id), SpanId(spec.parent_span)));
            Ret::Records(recs.iter().map(Rec::from).collect())
        }
        Op::Collect { into } => {
            if let Some(pos) = ctx.stack.iter().rposition(|h| matches!(h, LocalH::Guard(_) | LocalH::Coll(_))) {
                match ctx.stack.remove(pos) {
                    LocalH::Coll(c) => match into {
                        Some(s) => {
                            let set = c.collect();
                            *slot_mut(&sh, *s) = SlotV::Set(set);
                        }
                        None => drop(c),
                    },
                    h => drop(h),
                }
            }
            Ret::None
        }
        Op::UnwindScope { slot, shape } => {
            struct HarnessUnwind;
            let sp = slot_span(&sh, *slot);
            let name = span_name(case.str_seed, op);
            let r = std::panic::catch_unwind(std::panic::AssertUnwindSafe(|| match shape % 3 {
                0 => {
                    let _g = sp.set_local_parent();
                    let _l = LocalSpan::enter_with_local_parent(name);
                    std::panic::resume_unwind(Box::new(HarnessUnwind));
                }
                1 => {
                    let _g = sp.set_local_parent();
                    let _c = fastrace::local::LocalCollector::start();
                    let _l = LocalSpan::enter_with_local_parent(name);
                    std::panic::resume_unwind(Box::new(HarnessUnwind));
                }
                _ => {
                    let _l = LocalSpan::enter_with_local_parent(name);
                    let _m = LocalSpan::enter_with_local_parent(span_name(case.str_seed, op + 1));
                    std::panic::resume_unwind(Box::new(HarnessUnwind));
                }
            }));
            if let Err(p) = r {
                if !p.is::<HarnessUnwind>() {
                    std::panic::resume_unwind(p);
                }
            }
            Ret::None
        }
        // (executed by the scripted body itself: tasks::run_body)
        Op::BodyPanic => Ret::None,
        Op::UserPanic { kind } => {
            struct UserFail;
            struct FailingName;
            impl From<FailingName> for std::borrow::Cow<'static, str> {
                fn from(_: FailingName) -> Self {
                    std::panic::resume_unwind(Box::new(UserFail))
                }
            }
            let r = std::panic::catch_unwind(std::panic::AssertUnwindSafe(|| match kind % 4 {
                0 => drop(LocalSpan::enter_with_local_parent(FailingName)),
                1 => drop(Span::enter_with_local_parent(FailingName)),
                2 => {
                    LocalSpan::add_properties(|| -> Vec<(String, String)> { std::panic::resume_unwind(Box::new(UserFail)) });
                }
                _ => LocalSpan::add_event(Event::new(FailingName)),
            }));
            if let Err(p) = r {
                if !p.is::<UserFail>() {
                    std::panic::resume_unwind(p);
                }
            }
            Ret::None
        }
        Op::EventNew { ev, n } => {
            let mut e = Event::new(event_name(case.str_seed, op));
            if *n > 0 {
                e = e.with_properties(|| closure_body(cp, idx, op, *n, inner));
            }
            *slot_mut(&sh, *ev) = SlotV::Event(e);
            Ret::None
        }
        Op::AddEventFrom { slot, ev } => {
            if let SlotV::Event(e) = std::mem::replace(slot_mut(&sh, *ev), SlotV::Empty) {
                match slot {
                    Some(s) => slot_span(&sh, *s).add_event(e),
                    None => LocalSpan::add_event(e),
                }
            }
            Ret::None
        }
        Op::HoldChild => {
            let sp = Span::enter_with_local_parent(span_name(case.str_seed, op));
            learn(ctx, op, &sp);
            if let Some(c) = &ctx.cur_cell {
                c.get().held.push(sp);
            }
            Ret::None
        }
        Op::LocalBurst { n } => {
            let name = span_name(case.str_seed, op);
            for _ in 0..*n {
                let s = LocalSpan::enter_with_local_parent(name.clone());
                drop(s);
            }
            Ret::None
        }
        Op::ScopeBurst { slot, n } => {
            let sp = slot_span(&sh, *slot);
            let mut gs = Vec::with_capacity(*n as usize);
            for _ in 0..*n {
                gs.push(sp.set_local_parent());
            }
            while let Some(g) = gs.pop() {
                drop(g);
            }
            Ret::None
        }
        Op::TeardownCalls { early } => {
            crate::teardown::arm(*early, op);
            Ret::None
        }
        Op::Twin { f, arg, slot } => {
            let plain = crate::corpus::run(*f, *arg, false);
            let g = slot.map(|s| slot_span(&sh, s).set_local_parent());
            let parent_ctx = ctx_tuple(SpanContext::current_local_parent());
            let traced = crate::corpus::run(*f, *arg, true);
            // a second traced call in the same scope: the first one must have left the local
            // context as it found it (also after a panic or an early drop)
            let followup = crate::corpus::run(1, *arg, true);
            drop(g);
            Ret::Twin(Box::new(TwinRet {
                plain,
                traced,
                parent_ctx,
                followup,
            }))
        }
        Op::NewTask { .. } | Op::Poll { .. } | Op::DropTask { .. } => crate::tasks::exec_async(ctx, idx, op, o, inner),
    }
}

pub fn exec_async_impl(ctx: &mut ThreadCtx, idx: usize, op: OpRef, o: &Op, inner: &[Op]) -> Ret {
    let sh = ctx.shared.clone();
    match o {
        Op::NewTask { task, wrap, span } => {
            let sp = match span {
                Some(s) => match std::mem::replace(slot_mut(&sh, *s), SlotV::Empty) {
                    SlotV::Span(sp) => Some(sp),
                    _ => None,
                },
                None => None,
            };
            let tb = crate::tasks::new_task(&sh.case, op, wrap, sp);
            *slot_mut(&sh, *task) = SlotV::Task(tb);
            Ret::None
        }
        Op::Poll { task, kind, ready } => match slot_mut(&sh, *task) {
            SlotV::Task(tb) => crate::tasks::poll_task(tb, ctx, idx, *kind, *ready, inner),
            _ => panic!("harness: no task in slot"),
        },
        Op::DropTask { task } => {
            if let SlotV::Task(tb) = slot_mut(&sh, *task) {
                crate::tasks::drop_task(tb);
            }
            Ret::None
        }
        _ => panic!("harness: op not supported yet: {:?}", o),
    }
}

pub fn thread_main(sh: Arc<Shared>, t: u8) {
    let tid = sim::my_tid();
    {
        let mut tids = sh.tids.lock().unwrap();
        if tids.len() <= t as usize {
            tids.resize(t as usize + 1, usize::MAX);
        }
        tids[t as usize] = tid;
    }
    let mut ctx = ThreadCtx {
        t,
        stack: vec![],
        shared: sh.clone(),
        inner_rets: vec![],
        learned: vec![],
        cur_cell: None,
    };
    let n = sh.case.ops.len();
    for i in 0..n {
        if sh.case.ops[i].t != t {
            continue;
        }
        for &d in &sh.deps[i] {
            sim::wait_op(d);
        }
        sim::yield_now(i as u64);
        let rec = &sh.case.ops[i];
        let opref = node_id(i, None);
        let (s0, t0) = {
            let mut st = sim::lock_st();
            st.push_ev(tid, sim::K_OP_BEGIN, i as u64, 0);
            (st.step as u32, st.clock)
        };
        ctx.inner_rets.clear();
        ctx.learned.clear();
        let r = std::panic::catch_unwind(std::panic::AssertUnwindSafe(|| exec_op(&mut ctx, i, opref, &rec.op, &rec.inner)));
        let (s1, t1) = {
            let mut st = sim::lock_st();
            st.push_ev(tid, sim::K_OP_END, i as u64, 0);
            (st.step as u32, st.clock)
        };
        let (ret, panic) = match r {
            Ok(r) => (r, None),
            Err(p) => {
                let msg = if let Some(s) = p.downcast_ref::<&str>() {
                    s.to_string()
                } else if let Some(s) = p.downcast_ref::<String>() {
                    s.clone()
                } else {
                    "panic (non-string payload)".to_string()
                };
                (Ret::None, Some(msg))
            }
        };
        {
            let mut res = sh.results.lock().unwrap();
            res[i] = OpOut {
                executed: true,
                start_step: s0,
                end_step: s1,
                t0,
                t1,
                tid,
                ret,
                panic,
                inner_rets: std::mem::take(&mut ctx.inner_rets),
                learned: std::mem::take(&mut ctx.learned),
            };
        }
        sim::op_done(i);
    }
    if t == 0 {
        sim::set_shutting_down();
    }
}

pub fn run_case(case: &Case) -> History {
    let deps = compute_deps(case);
    let nslots = max_slot(case);
    let shared = Arc::new(Shared {
        case: case.clone(),
        deps: deps.clone(),
        slots: (0..nslots).map(|_| UnsafeCell::new(SlotV::Empty)).collect(),
        results: Mutex::new(vec![OpOut::default(); case.ops.len()]),
        batches: Arc::new(Mutex::new(vec![])),
        closure_calls: Mutex::new(HashMap::new()),
        handles: Mutex::new(HashMap::new()),
        joined: Mutex::new(vec![]),
        tids: Mutex::new(vec![]),
    });
    let sh2 = shared.clone();
    let nops = case.ops.len();
    let out = sim::run(
        case.sched.clone(),
        Box::new(move || {
            sim::set_op_count(nops);
            thread_main(sh2, 0)
        }),
    );
    let ops = shared.results.lock().unwrap().clone();
    let batches = shared.batches.lock().unwrap().clone();
    let closure_calls = shared.closure_calls.lock().unwrap().clone();
    let tids = shared.tids.lock().unwrap().clone();
    History {
        teardown_panics: crate::teardown::take_panics(),
        out,
        ops,
        batches,
        closure_calls,
        tids,
        deps,
    }
}
