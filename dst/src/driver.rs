//! Worker processes, the multi-process driver, replay, evidence files, known findings.

use std::collections::{BTreeMap, HashSet};
use std::io::Write;
use std::process::{Command, Stdio};
use std::time::Instant;

use serde::{Deserialize, Serialize};

use crate::exec::{run_case, History};
use crate::gen;
use crate::minimize;
use crate::model::Model;
use crate::oracle::{evaluate, Verdict, Violation};
use crate::prog::Case;
use crate::sim::{mix, Hard};

pub const ENGINE: &str = "dst-1";
pub const DET_EVERY: u64 = 499;

#[derive(Serialize, Deserialize, Clone, Debug)]
pub struct ReplayFile {
    pub engine: String,
    pub property: String,
    pub violation: Violation,
    pub log_hash: String,
    pub minimised: bool,
    pub original_ops: usize,
    pub original_decisions: usize,
    pub case: Case,
}

#[derive(Serialize, Deserialize, Default, Debug)]
pub struct WorkerResult {
    pub evaluated: u64,
    pub steps: u64,
    pub switches: u64,
    pub sim_ns: u64,
    pub ops: u64,
    pub hard_exit: bool,
    pub last_seed: u64,
    pub probes: BTreeMap<String, u64>,
    pub violations: Vec<(Violation, String)>,
    pub trigger_traces: Vec<u64>,
    pub all_traces: u64,
    pub policies: BTreeMap<String, u64>,
    pub samples: Vec<serde_json::Value>,
    pub states: Vec<u64>,
    /// (seed index, event-log hash) of the seeds every worker re-runs for the determinism check
    #[serde(default)]
    pub det: Vec<(u64, u64)>,
}

pub fn fnv(h: &mut u64, x: u64) {
    *h = (*h ^ x).wrapping_mul(1099511628211);
}

pub fn hist_hash(h: &History) -> u64 {
    let mut x: u64 = 1469598103934665603;
    for e in &h.out.log {
        for v in [e.step as u64, e.tid as u64, e.kind as u64, e.a, e.b, e.t] {
            fnv(&mut x, v);
        }
    }
    for b in &h.batches {
        fnv(&mut x, b.step as u64);
        let mut recs: Vec<String> = b
            .recs
            .iter()
            .map(|r| format!("{:x}|{:x}|{:x}|{}|{}|{}|{:?}|{:?}", r.trace_id, r.span_id, r.parent_id, r.begin, r.dur, r.name, r.props, r.events))
            .collect();
        recs.sort();
        for r in recs {
            for c in r.bytes() {
                fnv(&mut x, c as u64);
            }
        }
    }
    for o in &h.ops {
        fnv(&mut x, o.start_step as u64);
        fnv(&mut x, o.end_step as u64);
        let s = format!("{:?}{:?}", o.ret, o.panic);
        for c in s.bytes() {
            fnv(&mut x, c as u64);
        }
    }
    x
}

pub fn eval_case(case: &Case) -> (History, Verdict) {
    let hist = run_case(case);
    let model = match Model::from_case(case) {
        Ok(m) => m,
        Err(e) => {
            eprintln!("HARNESS ERROR: model rejects case: {}", e);
            std::process::exit(2);
        }
    };
    let v = evaluate(&case.prop, case, &model, &hist);
    (hist, v)
}

pub fn run_and_print(case: &Case, verbose: bool) -> i32 {
    let (hist, v) = eval_case(case);
    if verbose {
        for (i, o) in case.ops.iter().enumerate() {
            let r = &hist.ops[i];
            println!(
                "#{:<3} t{} {:?} {:?}  steps {}..{} ret {:?} {}",
                i,
                o.t,
                o.op,
                o.inner,
                r.start_step,
                r.end_step,
                r.ret,
                r.panic.as_deref().unwrap_or("")
            );
        }
        for (i, b) in hist.batches.iter().enumerate() {
            println!("batch {} step {} t {} by tid {}:", i, b.step, b.t, b.tid);
            for r in &b.recs {
                println!(
                    "   trace {:032x} id {:016x} parent {:016x} begin {} dur {} name {:?} props {:?} events {:?}",
                    r.trace_id,
                    r.span_id,
                    r.parent_id,
                    r.begin,
                    r.dur,
                    r.name.chars().take(40).collect::<String>(),
                    r.props.iter().map(|(k, v)| (k.chars().take(16).collect::<String>(), v.chars().take(16).collect::<String>())).collect::<Vec<_>>(),
                    r.events.iter().map(|e| e.name.chars().take(16).collect::<String>()).collect::<Vec<_>>()
                );
            }
        }
        if std::env::var("DST_LOG").is_ok() {
            for e in &hist.out.log {
                println!("  ev step {} tid {} kind {} a {} b {} t {}", e.step, e.tid, e.kind, e.a, e.b, e.t);
            }
        }
        println!("probes: {:?}", v.probes);
        println!("steps {} switches {} decisions {} cycles {} hard {:?}", hist.out.steps, hist.out.switches, hist.out.decisions.len(), hist.out.cycles, hist.out.hard);
    }
    println!("LOGHASH {:016x}", hist_hash(&hist));
    for x in &v.violations {
        println!("VIOLATION-DETAIL property={} clause={} sig={} :: {}", x.prop, x.clause, x.sig, x.msg);
    }
    if hist.out.hard.is_some() {
        std::io::stdout().flush().ok();
        std::process::exit(if v.violations.is_empty() { 0 } else { 1 });
    }
    if v.violations.is_empty() {
        0
    } else {
        1
    }
}

fn verif_dir() -> String {
    std::env::var("VERIF_DIR").unwrap_or_else(|_| "/verif".to_string())
}

pub fn write_replay(case: &Case, hist: &History, viol: &Violation, minimised: bool, orig_ops: usize, orig_dec: usize) -> String {
    let dir = format!("{}/replays", verif_dir());
    std::fs::create_dir_all(&dir).ok();
    let mut c = case.clone();
    if c.sched.explicit.is_none() {
        c.sched.explicit = Some(hist.out.decisions.clone());
    }
    let rf = ReplayFile {
        engine: ENGINE.to_string(),
        property: viol.prop.clone(),
        violation: viol.clone(),
        log_hash: format!("{:016x}", hist_hash(hist)),
        minimised,
        original_ops: orig_ops,
        original_decisions: orig_dec,
        case: c,
    };
    let path = format!("{}/{}-{}-{}.json", dir, viol.prop, case.seed, viol.clause.replace('.', "_"));
    std::fs::write(&path, serde_json::to_string_pretty(&rf).unwrap()).expect("write replay");
    path
}

fn pin_cpu(cpu: usize) {
    unsafe {
        let mut set: libc::cpu_set_t = std::mem::zeroed();
        libc::CPU_ZERO(&mut set);
        libc::CPU_SET(cpu, &mut set);
        libc::sched_setaffinity(0, std::mem::size_of::<libc::cpu_set_t>(), &set);
    }
}

fn policy_name(c: &Case) -> String {
    format!(
        "{:?}{}",
        c.sched.policy,
        if c.sched.atomic_cycles { "+atomic" } else { "" }
    )
    .chars()
    .filter(|ch| !ch.is_whitespace())
    .collect()
}

fn sample_of(case: &Case, hist: &History) -> serde_json::Value {
    serde_json::json!({
        "seed": case.seed,
        "threads": case.threads,
        "policy": policy_name(case),
        "ring_cap": case.sched.ring_cap,
        "ops": case.ops.iter().map(|o| format!("t{} {:?}{}", o.t, o.op, if o.inner.is_empty() { String::new() } else { format!(" inner={:?}", o.inner) })).collect::<Vec<_>>(),
        "schedule_decisions": hist.out.decisions.iter().take(200).collect::<Vec<_>>(),
        "steps": hist.out.steps,
        "cycles": hist.out.cycles,
        "batches": hist.batches.iter().map(|b| b.recs.len()).collect::<Vec<_>>(),
    })
}

/// every CHECKED_MOD-th worker process runs the build with fastrace's debug assertions compiled in
pub const CHECKED_MOD: u64 = 4;

pub fn checked_exe() -> Option<std::path::PathBuf> {
    let p = std::path::PathBuf::from(format!("{}/target-checked/release/dst", verif_dir()));
    if p.exists() {
        Some(p)
    } else {
        None
    }
}

pub fn am_checked() -> bool {
    std::env::current_exe().map(|p| p.to_string_lossy().contains("/target-checked/")).unwrap_or(false)
}

/// the executable that must run this case: the one it was found with
pub fn exe_for(case: &Case) -> Option<std::path::PathBuf> {
    if case.checked == am_checked() {
        return std::env::current_exe().ok();
    }
    if case.checked {
        checked_exe()
    } else {
        let p = std::path::PathBuf::from(format!("{}/target/release/dst", verif_dir()));
        if p.exists() {
            Some(p)
        } else {
            None
        }
    }
}

/// which seeds get strictly nested programs: those of the checked workers, and the seeds every
/// worker runs for the determinism comparison
pub fn strict_for(i: u64, stride: u64, checked_mod: u64) -> bool {
    checked_mod > 0 && (i % DET_EVERY == 7 || (i % stride) % checked_mod == checked_mod - 1)
}

pub fn case_for(prop: &str, base: u64, i: u64, thorough: bool, stride: u64, checked_mod: u64) -> Case {
    gen::set_strict(strict_for(i, stride, checked_mod));
    let mut case = gen::generate_tier(prop, base + i, thorough);
    gen::set_strict(false);
    case.checked = checked_mod > 0 && i % DET_EVERY != 7 && (i % stride) % checked_mod == checked_mod - 1;
    case
}

pub fn worker_main(args: &[String]) -> i32 {
    let get = |n: &str| crate::arg(args, n);
    let prop = get("--prop").expect("--prop").to_string();
    let base: u64 = get("--base").and_then(|s| s.parse().ok()).unwrap_or(0);
    let from: u64 = get("--from").and_then(|s| s.parse().ok()).unwrap_or(0);
    let count: u64 = get("--count").and_then(|s| s.parse().ok()).unwrap_or(1000);
    let stride: u64 = get("--stride").and_then(|s| s.parse().ok()).unwrap_or(1);
    let offset: u64 = get("--offset").and_then(|s| s.parse().ok()).unwrap_or(0);
    let out = get("--out").expect("--out").to_string();
    if let Some(cpu) = get("--cpu").and_then(|s| s.parse::<usize>().ok()) {
        pin_cpu(cpu);
    }
    let deadline: Option<f64> = get("--max-seconds").and_then(|s| s.parse().ok());
    let thorough = get("--tier") == Some("thorough");
    let checked_mod: u64 = get("--checked-mod").and_then(|s| s.parse().ok()).unwrap_or(0);
    let t0 = Instant::now();
    let mut res = WorkerResult::default();
    // resume: a previous incarnation of this worker may have left partial results
    if let Ok(s) = std::fs::read_to_string(&out) {
        if let Ok(r) = serde_json::from_str::<WorkerResult>(&s) {
            res = r;
            res.hard_exit = false;
        }
    }
    let mut triggers: HashSet<u64> = res.trigger_traces.iter().copied().collect();
    let mut all_traces: HashSet<u64> = HashSet::new();
    let mut states: HashSet<u64> = res.states.iter().copied().collect();
    let mut seen_sigs: HashSet<(String, String)> = res.violations.iter().map(|(v, _)| (v.clause.clone(), v.sig.clone())).collect();
    let known: KnownFindings = std::fs::read_to_string(format!("{}/known-findings.json", verif_dir()))
        .ok()
        .and_then(|s| serde_json::from_str(&s).ok())
        .unwrap_or_default();
    let marker = format!("{}.cur", out);
    let mut i = from;
    while i < count {
        if i % DET_EVERY == 7 && (i % stride != offset) {
            // determinism: every worker process (pinned to a different core) also runs these
            // seeds; the driver compares the event-log hashes across processes
            let mut case = case_for(&prop, base, i, thorough, stride, checked_mod);
            case.checked = am_checked();
            std::fs::write(&marker, format!("{}", i)).ok();
            let hist = run_case(&case);
            if hist.out.hard.is_none() {
                res.det.push((i, hist_hash(&hist)));
            } else {
                // a condemned run: handled when the owning worker reaches it
                finish_worker(&mut res, &triggers, &all_traces, &states, &out);
                std::process::exit(3);
            }
        }
        if i % stride != offset {
            i += 1;
            continue;
        }
        if let Some(d) = deadline {
            if t0.elapsed().as_secs_f64() > d {
                break;
            }
        }
        let seed = base + i;
        std::fs::write(&marker, format!("{}", i)).ok();
        let mut case = case_for(&prop, base, i, thorough, stride, checked_mod);
        case.checked = am_checked();
        let _ = seed;
        let (hist, v) = eval_case(&case);
        res.evaluated += 1;
        res.last_seed = i;
        if i % DET_EVERY == 7 && hist.out.hard.is_none() {
            res.det.push((i, hist_hash(&hist)));
        }
        res.steps += hist.out.steps;
        res.switches += hist.out.switches;
        res.sim_ns += hist.out.sim_ns;
        res.ops += case.ops.len() as u64;
        *res.policies.entry(policy_name(&case)).or_insert(0) += 1;
        for (k, n) in &v.probes {
            *res.probes.entry(k.to_string()).or_insert(0) += n;
        }
        all_traces.insert(hist.out.dtrace);
        if v.trigger {
            triggers.insert(hist.out.dtrace);
        }
        for st in crate::oracle::abstract_states(&hist) {
            if states.len() < 200_000 {
                states.insert(st);
            }
        }
        if res.samples.len() < 3 && v.trigger {
            res.samples.push(sample_of(&case, &hist));
        }
        let hard = hist.out.hard.clone();
        for viol in &v.violations {
            let key = (viol.clause.clone(), viol.sig.clone());
            if seen_sigs.contains(&key) {
                continue;
            }
            seen_sigs.insert(key);
            let known = known.findings.iter().any(|k| k.property == viol.prop && k.clause == viol.clause && viol.sig.split(':').any(|t| t == k.sig_contains));
            let path = if hard.is_some() || (known && std::env::var("DST_MIN_KNOWN").is_err()) {
                write_replay(&case, &hist, viol, false, case.ops.len(), hist.out.decisions.len())
            } else {
                let (mc, mh, mv, minimised) = minimize::minimise(&case, &hist, viol);
                write_replay(&mc, &mh, &mv, minimised, case.ops.len(), hist.out.decisions.len())
            };
            res.violations.push((viol.clone(), path));
            // remember it across a restart of this worker (a later abort must not make the next
            // incarnation minimise and write the same class again)
            finish_worker(&mut res, &triggers, &all_traces, &states, &out);
            all_traces.clear();
        }
        if res.evaluated % 256 == 0 {
            // checkpoint: a later abort of this process must not lose the progress so far
            finish_worker(&mut res, &triggers, &all_traces, &states, &out);
            all_traces.clear();
        }
        if hard.is_some() {
            // the process is condemned (parked threads, dirty library state): save and exit;
            // the driver restarts this worker after this seed
            res.hard_exit = true;
            finish_worker(&mut res, &triggers, &all_traces, &states, &out);
            let _ = matches!(hard, Some(Hard::StepCap));
            std::io::stdout().flush().ok();
            std::process::exit(3);
        }
        i += 1;
    }
    finish_worker(&mut res, &triggers, &all_traces, &states, &out);
    std::fs::remove_file(&marker).ok();
    0
}

fn finish_worker(res: &mut WorkerResult, triggers: &HashSet<u64>, all: &HashSet<u64>, states: &HashSet<u64>, out: &str) {
    res.trigger_traces = triggers.iter().copied().collect();
    res.trigger_traces.sort_unstable();
    res.all_traces += all.len() as u64;
    res.states = states.iter().copied().collect();
    res.states.sort_unstable();
    std::fs::write(out, serde_json::to_string(res).unwrap()).expect("write worker result");
}

#[derive(Deserialize, Default)]
struct KnownFindings {
    #[serde(default)]
    findings: Vec<KnownFinding>,
    #[serde(default)]
    #[allow(dead_code)]
    fixed: Vec<String>,
}

#[derive(Deserialize)]
struct KnownFinding {
    property: String,
    clause: String,
    /// the violation's signature must contain this token (the class of failing history)
    sig_contains: String,
    description: String,
}

pub struct Budget {
    pub quick: u64,
    pub thorough: u64,
}

pub fn budget(prop: &str) -> Budget {
    match prop {
        "C01" => Budget { quick: 150_000, thorough: 3_000_000 },
        "C02" => Budget { quick: 100_000, thorough: 2_000_000 },
        "C03" => Budget { quick: 150_000, thorough: 3_000_000 },
        "C04" => Budget { quick: 150_000, thorough: 3_000_000 },
        "C05" => Budget { quick: 100_000, thorough: 1_000_000 },
        "C06" => Budget { quick: 100_000, thorough: 2_000_000 },
        "C08" => Budget { quick: 80_000, thorough: 1_500_000 },
        "C10" => Budget { quick: 100_000, thorough: 1_000_000 },
        "C11" => Budget { quick: 100_000, thorough: 1_000_000 },
        "C07" => Budget { quick: 100_000, thorough: 2_000_000 },
        "C09" => Budget { quick: 60_000, thorough: 1_000_000 },
        "C13" => Budget { quick: 100_000, thorough: 2_000_000 },
        "C14" => Budget { quick: 80_000, thorough: 1_500_000 },
        "C15" => Budget { quick: 60_000, thorough: 1_000_000 },
        "C16" => Budget { quick: 60_000, thorough: 1_000_000 },
        "C17" => Budget { quick: 250_000, thorough: 2_500_000 },
        "C18" => Budget { quick: 100_000, thorough: 2_000_000 },
        _ => Budget { quick: 100_000, thorough: 1_000_000 },
    }
}

pub fn drive_main(args: &[String]) -> i32 {
    let get = |n: &str| crate::arg(args, n);
    let prop = get("--prop").expect("--prop").to_string();
    let tier = get("--tier").unwrap_or("quick").to_string();
    let seed: u64 = std::env::var("VERIF_SEED").ok().and_then(|s| s.parse().ok()).unwrap_or(1);
    let b = budget(&prop);
    let mut count = if tier == "thorough" { b.thorough } else { b.quick };
    if let Some(c) = get("--count").and_then(|s| s.parse().ok()) {
        count = c;
    }
    let workers: u64 = get("--workers").and_then(|s| s.parse().ok()).unwrap_or_else(|| {
        std::thread::available_parallelism().map(|n| n.get() as u64).unwrap_or(4).min(16)
    });
    let max_seconds: Option<String> = get("--max-seconds").map(|s| s.to_string());
    let base = mix(seed).wrapping_shl(24) & 0x0fff_ffff_ff00_0000;
    let tmp = format!("{}/target/run-{}-{}", verif_dir(), prop, std::process::id());
    std::fs::create_dir_all(&tmp).expect("mkdir run dir");
    let exe = std::env::current_exe().unwrap();
    let started_at = std::time::SystemTime::now();
    let cexe = checked_exe();
    let checked_mod: u64 = if cexe.is_some() && workers >= CHECKED_MOD { CHECKED_MOD } else { 0 };
    let is_checked_worker = |k: u64| checked_mod > 0 && k % checked_mod == checked_mod - 1;
    let t0 = Instant::now();
    let spawn_worker = |k: u64, from: u64| {
        let mut c = Command::new(if is_checked_worker(k) { cexe.as_ref().unwrap() } else { &exe });
        c.arg("worker")
            .arg("--checked-mod").arg(checked_mod.to_string())
            .arg("--prop").arg(&prop)
            .arg("--tier").arg(&tier)
            .arg("--base").arg(base.to_string())
            .arg("--from").arg(from.to_string())
            .arg("--count").arg(count.to_string())
            .arg("--stride").arg(workers.to_string())
            .arg("--offset").arg(k.to_string())
            .arg("--cpu").arg(k.to_string())
            .arg("--out").arg(format!("{}/w{}.json", tmp, k))
            .stdout(Stdio::null())
            .stderr(Stdio::inherit());
        if let Some(ms) = &max_seconds {
            c.arg("--max-seconds").arg(ms);
        }
        c.spawn().expect("spawn worker")
    };
    let mut children: Vec<(u64, std::process::Child, u32)> = (0..workers).map(|k| (k, spawn_worker(k, 0), 0)).collect();
    let mut harness_error = false;
    let mut aborted: Vec<(u64, u64, String)> = vec![];
    let mut hard_exits = 0u64;
    let mut gave_up = 0u64;
    while !children.is_empty() {
        let mut next = vec![];
        for (k, mut ch, restarts) in children {
            match ch.try_wait() {
                Ok(Some(st)) => {
                    let code = st.code();
                    if code == Some(0) {
                        continue;
                    }
                    // where was it?
                    let marker = format!("{}/w{}.json.cur", tmp, k);
                    let cur: Option<u64> = std::fs::read_to_string(&marker).ok().and_then(|s| s.trim().parse().ok());
                    if code == Some(2) {
                        harness_error = true;
                        continue;
                    }
                    if code != Some(3) {
                        // abort / signal: a panic in a thread-local destructor, a segfault...
                        aborted.push((k, cur.unwrap_or(0), format!("{:?}", st)));
                    }
                    if code == Some(3) {
                        hard_exits += 1;
                    }
                    if restarts > 40 || (code != Some(3) && aborted.iter().filter(|(w, _, _)| *w == k).count() > 12) {
                        // this worker keeps hitting condemned runs (deadlock, livelock: exit 3 with
                        // the violation already written) or keeps dying (abort: attributed below):
                        // enough evidence, stop restarting it. Neither is a harness error.
                        gave_up += 1;
                        continue;
                    }
                    match cur {
                        Some(c) => next.push((k, spawn_worker(k, c + 1), restarts + 1)),
                        None => harness_error = true,
                    }
                }
                Ok(None) => next.push((k, ch, restarts)),
                Err(_) => harness_error = true,
            }
        }
        children = next;
        std::thread::sleep(std::time::Duration::from_millis(20));
    }
    let wall = t0.elapsed().as_secs_f64();
    // aggregate
    let mut total = WorkerResult::default();
    let mut det: std::collections::HashMap<u64, Vec<u64>> = std::collections::HashMap::new();
    let mut triggers: HashSet<u64> = HashSet::new();
    let mut states: HashSet<u64> = HashSet::new();
    let mut checked_evals = 0u64;
    for k in 0..workers {
        let p = format!("{}/w{}.json", tmp, k);
        match std::fs::read_to_string(&p).ok().and_then(|s| serde_json::from_str::<WorkerResult>(&s).ok()) {
            Some(r) => {
                if is_checked_worker(k) {
                    checked_evals += r.evaluated;
                }
                total.evaluated += r.evaluated;
                total.steps += r.steps;
                total.switches += r.switches;
                total.sim_ns += r.sim_ns;
                total.ops += r.ops;
                total.all_traces += r.all_traces;
                for (k, v) in r.probes {
                    *total.probes.entry(k).or_insert(0) += v;
                }
                for (k, v) in r.policies {
                    *total.policies.entry(k).or_insert(0) += v;
                }
                for v in r.violations {
                    total.violations.push(v);
                }
                for t in r.trigger_traces {
                    triggers.insert(t);
                }
                for (i, h) in r.det {
                    det.entry(i).or_default().push(h);
                }
                for s in r.states {
                    states.insert(s);
                }
                if total.samples.len() < 3 {
                    total.samples.extend(r.samples.into_iter().take(3 - total.samples.len()));
                }
            }
            None => {
                if aborted.iter().any(|(w, _, _)| *w == k) {
                    continue; // died before its first checkpoint; the abort is reported below
                }
                eprintln!("HARNESS ERROR: worker {} left no result", k);
                harness_error = true;
            }
        }
    }
    std::fs::remove_dir_all(&tmp).ok();
    // determinism across processes
    let det_seeds = det.len();
    let det_runs: usize = det.values().map(|v| v.len()).sum();
    let mut det_mismatch: Vec<u64> = det.iter().filter(|(_, v)| v.iter().any(|h| *h != v[0])).map(|(i, _)| *i).collect();
    det_mismatch.sort_unstable();
    if !det_mismatch.is_empty() {
        eprintln!("HARNESS ERROR: nondeterminism: seed indices {:?} produced different event logs in different worker processes", &det_mismatch[..det_mismatch.len().min(5)]);
        harness_error = true;
    }
    // process aborts are C07 violations attributed to the seed in the marker file
    for (k, cur, st) in aborted.iter().take(1) {
        let mut case = case_for(&prop, base, *cur, tier == "thorough", workers, checked_mod);
        case.checked = is_checked_worker(*k);
        let viol = Violation {
            prop: "C07".into(),
            clause: "C07.abort".into(),
            sig: "process-abort".into(),
            msg: format!("worker {} died ({}) while running seed index {}", k, st, cur),
        };
        let dir = format!("{}/replays", verif_dir());
        std::fs::create_dir_all(&dir).ok();
        let path = format!("{}/C07-{}-abort.json", dir, case.seed);
        let rf = ReplayFile {
            engine: ENGINE.into(),
            property: "C07".into(),
            violation: viol.clone(),
            log_hash: String::new(),
            minimised: false,
            original_ops: case.ops.len(),
            original_decisions: 0,
            case,
        };
        std::fs::write(&path, serde_json::to_string_pretty(&rf).unwrap()).ok();
        total.violations.push((viol, path));
    }
    // condemning runs could not be minimised inside the worker: do it here, one per class, with
    // every candidate in a fresh process
    {
        let mut done: HashSet<(String, String)> = HashSet::new();
        for (v, path) in total.violations.iter() {
            let hard = v.clause == "deadlock" || v.clause == "livelock" || v.clause == "C07.abort";
            if !hard || !done.insert((v.clause.clone(), v.sig.clone())) {
                continue;
            }
            let rf: Option<ReplayFile> = std::fs::read_to_string(path).ok().and_then(|s| serde_json::from_str(&s).ok());
            if let Some(mut rf) = rf {
                if rf.minimised {
                    continue;
                }
                let tmpf = format!("{}/target/min-{}.json", verif_dir(), std::process::id());
                if let Some((c, s)) = minimize::minimise_hard(&rf.case, v, &tmpf, 250) {
                    rf.original_ops = rf.case.ops.len();
                    rf.case = c;
                    rf.minimised = true;
                    rf.log_hash = s.log_hash;
                    std::fs::write(path, serde_json::to_string_pretty(&rf).unwrap()).ok();
                }
                std::fs::remove_file(&tmpf).ok();
            }
        }
    }
    // known findings
    let kf: KnownFindings = std::fs::read_to_string(format!("{}/known-findings.json", verif_dir()))
        .ok()
        .and_then(|s| serde_json::from_str(&s).ok())
        .unwrap_or_default();
    let mut exit = 0;
    let mut printed: HashSet<(String, String, String)> = HashSet::new();
    let mut nviol: u64 = 0;
    let mut nknown = 0;
    for (v, path) in &total.violations {
        let key = (v.prop.clone(), v.clause.clone(), v.sig.clone());
        if printed.contains(&key) {
            // one replay file per violation class is enough
            std::fs::remove_file(path).ok();
            continue;
        }
        printed.insert(key);
        if let Some(k) = kf.findings.iter().find(|k| k.property == v.prop && k.clause == v.clause && v.sig.split(':').any(|t| t == k.sig_contains)) {
            println!("KNOWN-FINDING: property={} {} [{} {}] replay={}", v.prop, k.description, v.clause, v.sig, path);
            nknown += 1;
        } else {
            println!("VIOLATION property={} replay={}", v.prop, path);
            println!("  clause={} sig={} :: {}", v.clause, v.sig, v.msg);
            nviol += 1;
            exit = 1;
        }
    }
    // replay files written during this run that no reported violation refers to (left behind by
    // worker incarnations that died before their first checkpoint) are scratch: remove them
    {
        let keep: HashSet<String> = total.violations.iter().map(|(_, p)| p.clone()).collect();
        if let Ok(rd) = std::fs::read_dir(format!("{}/replays", verif_dir())) {
            for e in rd.flatten() {
                let p = e.path();
                let ps = p.to_string_lossy().to_string();
                // written after this run started (another run's files are none of this run's business)
                let fresh = e.metadata().ok().and_then(|m| m.modified().ok()).map(|m| m >= started_at).unwrap_or(false);
                let mine = p.file_name().map(|n| n.to_string_lossy().starts_with(&format!("{}-", prop)) || n.to_string_lossy().starts_with("C07-")).unwrap_or(false);
                if fresh && mine && !keep.contains(&ps) {
                    std::fs::remove_file(&p).ok();
                }
            }
        }
    }
    // evidence
    let zero_probes: Vec<String> = total.probes.iter().filter(|(_, v)| **v == 0).map(|(k, _)| k.clone()).collect();
    let runs_per_s = total.evaluated as f64 / wall.max(1e-9);
    let ev = serde_json::json!({
        "property_id": prop,
        "tier": tier,
        "seed": seed,
        "level": "exploration",
        "coverage": {
            "evaluations": total.evaluated,
            "distinct_nontrivial": triggers.len(),
            "rule": format!("one evaluation = one generated program ({} profile) run once under one seeded schedule and fault plan, then checked by the {} oracle against the reference model; non-trivial = the run hit the property's trigger probe (DESIGN §7 table); distinct = distinct decision traces, i.e. the hash of (role of the chosen thread, hook point kind, number of runnable threads) over every scheduling decision with >= 2 runnable threads", prop, prop),
            "samples": total.samples,
            "runs_per_second": runs_per_s,
            "seeds_per_hour": runs_per_s * 3600.0,
            "simulated_seconds": total.sim_ns as f64 / 1e9,
            "scheduler_steps": total.steps,
            "context_switches": total.switches,
            "operations_executed": total.ops,
            "distinct_decision_traces_all_runs_sum_over_workers": total.all_traces,
            "distinct_abstract_collector_states": states.len(),
            "probes_and_fault_counts": total.probes,
            "probes_at_zero": zero_probes,
            "scheduler_policies": total.policies,
            "workers": workers,
            "seed_range": [base, base + count],
            "known_findings_reported": nknown,
            "determinism": {
                "rule": format!("every {}th seed is run by all {} worker processes (each pinned to its own core); the hash over the complete event log, all batches and all operation results must be equal", DET_EVERY, workers),
                "seeds_compared": det_seeds,
                "runs_compared": det_runs,
                "mismatches": det_mismatch.len(),
            },
            "checked_build": {
                "what": "the same harness built with fastrace's and fastrace-futures' debug assertions and overflow checks compiled in (the library's own invariants are checked while each run proceeds); its programs are strictly nested (guards released in reverse order of creation, the library's stated precondition)",
                "worker_processes": (0..workers).filter(|k| is_checked_worker(*k)).count(),
                "evaluations": checked_evals,
            },
            "process_aborts": aborted.len(),
            "condemned_runs": hard_exits,
            "workers_stopped_early": gave_up,
            "components": {
                "real": ["fastrace (span API, local stacks, span queue, global collector, flush, background loop, spsc Sender/Receiver)", "fastrace-futures", "fastrace-macro expansion", "rtrb ring buffer", "parking_lot::Mutex (uncontended)", "std thread-locals and their destructors", "OS thread exit"],
                "simulated": ["thread scheduling (real OS threads, one runs at a time, seeded choice)", "thread::spawn/join/sleep", "simulated time"],
                "stub": ["fastant::Instant/Anchor -> simulated clock", "rand::random -> per-run bijective counter mix", "reporter -> capturing reporter"]
            }
        },
        "assumptions": [
            "rtrb and parking_lot internals are trusted (no weak-memory reorderings explored: execution is serialised)",
            "the simulated clock and id stubs replace fastant and rand",
            "the reference model (dst/src/model.rs) is the specification of expected records",
            "seeded sampling: a clean batch is evidence, not proof"
        ],
        "wall_s": wall,
        "violations": nviol,
    });
    let mut ev = ev;
    // the seam audit run.sh made just before (tools/seam_audit.py): new clock/thread/random
    // references outside the simulator's shims are a warning, not a verdict
    if let Some(d) = std::fs::read_to_string(format!("{}/target/seam-audit.json", verif_dir())).ok().and_then(|s| serde_json::from_str::<serde_json::Value>(&s).ok()) {
        ev["coverage"]["seam_audit"] = d;
    }
    // C16: the enable-less build was run by run.sh just before; fold its result in
    if prop == "C16" {
        let p = format!("{}/target-disabled/c16-disabled.json", verif_dir());
        match std::fs::read_to_string(&p).ok().and_then(|s| serde_json::from_str::<serde_json::Value>(&s).ok()) {
            Some(d) => {
                if let Some(vs) = d["violations"].as_array() {
                    for x in vs {
                        println!("VIOLATION property=C16 replay={}", x["replay"].as_str().unwrap_or("?"));
                        println!("  clause=C16.disabled sig=not-inert :: {}", x["problems"]);
                        exit = 1;
                        nviol += 1;
                    }
                }
                ev["violations"] = serde_json::json!(nviol);
                ev["coverage"]["disabled_build"] = d;
            }
            None => {
                eprintln!("HARNESS ERROR: no result of the enable-less build at {}", p);
                harness_error = true;
            }
        }
    }
    let evdir = format!("{}/evidence", verif_dir());
    std::fs::create_dir_all(&evdir).ok();
    std::fs::write(format!("{}/{}.json", evdir, prop), serde_json::to_string_pretty(&ev).unwrap()).expect("write evidence");
    println!(
        "{} {}: {} runs in {:.1}s ({:.0}/s), {} distinct non-trivial decision traces, {} violations, {} known findings",
        prop, tier, total.evaluated, wall, runs_per_s, triggers.len(), nviol, nknown
    );
    if harness_error && exit == 0 {
        eprintln!("HARNESS ERROR: worker infrastructure failure or nondeterminism, and no violation to report");
        return 2;
    }
    if harness_error {
        eprintln!("NOTE: besides the violation(s) above the run saw a harness-level problem (see HARNESS ERROR lines)");
    }
    exit
}

pub fn replay_main(path: &str) -> i32 {
    let s = std::fs::read_to_string(path).expect("read replay file");
    let rf: ReplayFile = serde_json::from_str(&s).expect("parse replay file");
    if rf.case.checked != am_checked() {
        // found with the other build: replay it there
        return match exe_for(&rf.case) {
            Some(exe) => Command::new(exe).arg("replay").arg(path).status().ok().and_then(|s| s.code()).unwrap_or(2),
            None => {
                eprintln!("HARNESS ERROR: this replay needs the build {} debug assertions, which is not built (run.sh builds both)", if rf.case.checked { "with" } else { "without" });
                2
            }
        };
    }
    if rf.violation.clause == "C07.abort" {
        // the run kills its process: replay it in a child and look at how the child ended
        let tmpf = format!("{}/target/replay-{}.json", verif_dir(), std::process::id());
        let r = minimize::eval_in_subprocess(&rf.case, &tmpf);
        std::fs::remove_file(&tmpf).ok();
        println!("replay of {} (property {}, clause {}) in a child process", path, rf.property, rf.violation.clause);
        return match r {
            Some(s) if s.violations.iter().any(|v| v.clause == "C07.abort") => {
                println!("VIOLATION property=C07 replay={}", path);
                println!("  clause=C07.abort sig=process-abort :: {}", s.violations.iter().find(|v| v.clause == "C07.abort").map(|v| v.msg.clone()).unwrap_or_default());
                1
            }
            _ => {
                println!("violation NOT reproduced (the child process survived)");
                0
            }
        };
    }
    let (hist, v) = eval_case(&rf.case);
    let h = format!("{:016x}", hist_hash(&hist));
    println!("replay of {} (property {}, clause {}, sig {})", path, rf.property, rf.violation.clause, rf.violation.sig);
    println!("log hash {} (recorded {})", h, rf.log_hash);
    let same = v.violations.iter().find(|x| x.clause == rf.violation.clause && x.sig == rf.violation.sig);
    let code = match same {
        Some(x) => {
            println!("VIOLATION property={} replay={}", x.prop, path);
            println!("  clause={} sig={} :: {}", x.clause, x.sig, x.msg);
            if !rf.log_hash.is_empty() && h != rf.log_hash {
                println!("WARNING: violation reproduced but the event log differs from the recorded one");
            }
            1
        }
        None => {
            println!("violation NOT reproduced ({} other violations)", v.violations.len());
            for x in &v.violations {
                println!("  other: clause={} sig={} :: {}", x.clause, x.sig, x.msg);
            }
            0
        }
    };
    std::io::stdout().flush().ok();
    if hist.out.hard.is_some() {
        std::process::exit(code);
    }
    code
}

pub fn runcase_main(path: &str) -> i32 {
    let s = std::fs::read_to_string(path).expect("read case file");
    let case: Case = serde_json::from_str(&s).expect("parse case");
    let (hist, v) = eval_case(&case);
    println!("VERDICT {}", serde_json::to_string(&v.violations).unwrap());
    println!("DECISIONS {}", serde_json::to_string(&hist.out.decisions).unwrap());
    println!("LOGHASH {:016x}", hist_hash(&hist));
    std::io::stdout().flush().ok();
    std::process::exit(0);
}

pub fn hashes_main(prop: &str, from: u64, count: u64) -> i32 {
    for i in from..from + count {
        let case = gen::generate(prop, i);
        let hist = run_case(&case);
        if hist.out.hard.is_some() {
            println!("{} HARD", i);
            std::io::stdout().flush().ok();
            std::process::exit(0);
        }
        println!("{} {:016x}", i, hist_hash(&hist));
    }
    0
}
