//! Digest of one run shared by all oracles: which op each hook event belongs to, which commands
//! were lost/parked, matching of delivered records against expected ones.

use std::collections::{HashMap, HashSet};

use fastrace::verif as fv;

use crate::exec::*;
use crate::model::*;
use crate::prog::*;
use crate::sim::{self, Ev};

#[derive(Clone, Debug)]
pub struct CmdFate {
    pub log_idx: usize,
    pub tid: usize,
    /// outer op index the command was issued in (None: thread exit phase / unknown)
    pub op: Option<usize>,
    pub kind: u8, // 0 start 1 drop 2 commit 3 submit
    pub force: bool,
    pub collect: u64,
    /// every collect id of the command (a submitted span set can go to several traces)
    pub collects: Vec<u64>,
    /// collector cycle (index into Analysis.cycles) that consumed the command
    pub cycle: Option<usize>,
    /// log index of the P_RECV event that consumed it
    pub consumed_at: Option<usize>,
    /// Entered the ring at this log index / Lost / Parked (and maybe entered later) / TlsGone
    pub entered: Option<usize>,
    pub lost: bool,
    pub parked: bool,
    /// the hook saw the ring full when this command was (not) pushed: only then is its loss the
    /// omission that C09 permits
    pub saw_full: bool,
}

#[derive(Clone, Debug)]
pub struct Delivered {
    pub batch: usize,
    pub idx: usize,
    pub node: Option<u32>,
    /// index into model.recs this record was matched with
    pub exp: Option<usize>,
}

#[derive(Clone, Debug)]
pub struct CycleInfo {
    pub begin_step: u32,
    pub end_step: u32,
    pub tid: usize,
    /// ring owner tid -> step at which its drain ended in this cycle
    pub drain_end: HashMap<usize, u32>,
}

pub struct Analysis<'a> {
    pub case: &'a Case,
    pub model: &'a Model,
    pub hist: &'a History,
    pub hb: Hb,
    /// for each log index: outer op being executed by that thread (usize::MAX = none)
    pub ev_op: Vec<usize>,
    pub cmds: Vec<CmdFate>,
    pub cycles: Vec<CycleInfo>,
    /// outer ops during which a submit command was lost
    pub lost_submit_ops: HashSet<usize>,
    /// collect ids (runtime) whose StartCollect was lost
    pub lost_starts: HashSet<u64>,
    /// model collect index -> runtime collect id
    pub collect_ids: HashMap<usize, u64>,
    pub tls_gone_ops: HashSet<usize>,
    pub id_of: HashMap<u32, u64>,
    /// every span id a node was delivered with (several only for enter_on_poll adapters: one
    /// local span per poll, all carrying the adapter's name)
    pub ids_of: HashMap<u32, Vec<u64>>,
    pub id_conflicts: Vec<String>,
    pub delivered: Vec<Delivered>,
    /// model.recs index -> delivered indices matched to it
    pub matched: Vec<Vec<usize>>,
    pub any_full: bool,
    pub parked_count: usize,
    pub tid_of_thread: Vec<usize>,
    /// expectations by (trace id, node)
    pub by_key: HashMap<(u128, u32), Vec<usize>>,
    pub memo_inv: std::cell::RefCell<HashMap<usize, (bool, bool, bool)>>,
    pub memo_batch: std::cell::RefCell<HashMap<(u128, u32, PRef), Option<usize>>>,
}

pub fn outer(op: OpRef) -> usize {
    (op / 16) as usize
}

impl<'a> Analysis<'a> {
    pub fn new(case: &'a Case, model: &'a Model, hist: &'a History) -> Analysis<'a> {
        let hb = Hb::compute(case, &hist.deps);
        let log = &hist.out.log;
        // attribute events to ops
        let mut cur: HashMap<u16, usize> = HashMap::new();
        let mut ended: HashMap<u16, usize> = HashMap::new(); // tid -> last op (ThreadEnd) for exit-phase events
        let mut ev_op = vec![usize::MAX; log.len()];
        for (i, e) in log.iter().enumerate() {
            match e.kind {
                sim::K_OP_BEGIN => {
                    cur.insert(e.tid, e.a as usize);
                    ev_op[i] = e.a as usize;
                }
                sim::K_OP_END => {
                    ev_op[i] = e.a as usize;
                    cur.remove(&e.tid);
                    ended.insert(e.tid, e.a as usize);
                }
                _ => {
                    ev_op[i] = cur.get(&e.tid).copied().unwrap_or(usize::MAX);
                    if ev_op[i] == usize::MAX {
                        // after the thread's last operation: exit phase, attributed to that op
                        // if it was a ThreadEnd
                        if let Some(&o) = ended.get(&e.tid) {
                            if matches!(case.ops.get(o).map(|r| &r.op), Some(Op::ThreadEnd)) {
                                ev_op[i] = o;
                            }
                        }
                    }
                }
            }
        }
        // command fates
        let mut cmds: Vec<CmdFate> = vec![];
        let mut open: HashMap<u16, usize> = HashMap::new(); // tid -> index into cmds of the command in flight
        let mut parked_q: HashMap<u16, Vec<usize>> = HashMap::new();
        let mut any_full = false;
        let mut parked_count = 0;
        let mut tls_gone_ops = HashSet::new();
        for (i, e) in log.iter().enumerate() {
            if e.kind == fv::P_TLS_GONE {
                if ev_op[i] != usize::MAX {
                    tls_gone_ops.insert(ev_op[i]);
                }
            } else if e.kind == fv::P_SEND_CMD {
                // a previous in-flight command of this thread without outcome: a `send` whose
                // replay of parked commands failed -> lost
                if let Some(ci) = open.remove(&e.tid) {
                    finish_cmd(&mut cmds[ci]);
                }
                let kind = (e.a & 0x7f) as u8;
                let force = (e.a >> 7) & 1 == 1;
                cmds.push(CmdFate {
                    log_idx: i,
                    tid: e.tid as usize,
                    op: if ev_op[i] == usize::MAX { None } else { Some(ev_op[i]) },
                    kind,
                    force,
                    collect: e.b,
                    collects: vec![e.b],
                    cycle: None,
                    consumed_at: None,
                    entered: None,
                    lost: false,
                    parked: false,
                    saw_full: false,
                });
                open.insert(e.tid, cmds.len() - 1);
            } else if e.kind == fv::P_PARKED && e.b == 1 {
                // parked behind pending commands without trying the ring
                if let Some(ci) = open.remove(&e.tid) {
                    cmds[ci].parked = true;
                    parked_count += 1;
                    parked_q.entry(e.tid).or_default().push(ci);
                }
            } else if e.kind == fv::P_SUBMIT_ITEM {
                if let Some(&ci) = open.get(&e.tid) {
                    cmds[ci].collects.push(e.b);
                }
            } else if e.kind == fv::P_PUSH_OUTCOME {
                let full = e.b == 1;
                if full {
                    any_full = true;
                }
                match e.a {
                    0 => {
                        // replay of the most recently parked command (LIFO on the pinned tree,
                        // FIFO once repaired: the harness does not need to know which one)
                        if !full {
                            if let Some(q) = parked_q.get_mut(&e.tid) {
                                // we cannot tell which parked command was pushed without knowing the
                                // replay order; record "some parked command entered" on the oldest
                                // one not yet entered for bookkeeping of counts only
                                if let Some(pos) = q.iter().position(|&ci| cmds[ci].entered.is_none()) {
                                    let ci = q[pos];
                                    cmds[ci].entered = Some(i);
                                }
                            }
                        } else if let Some(&ci) = open.get(&e.tid) {
                            cmds[ci].saw_full = true;
                            if !cmds[ci].force {
                                // send(): replay failed, the new value is not even tried
                                cmds[ci].lost = true;
                                open.remove(&e.tid);
                            }
                        }
                    }
                    1 => {
                        if let Some(ci) = open.remove(&e.tid) {
                            if !full {
                                cmds[ci].entered = Some(i);
                            } else if cmds[ci].force {
                                cmds[ci].saw_full = true;
                                cmds[ci].parked = true;
                                parked_count += 1;
                                parked_q.entry(e.tid).or_default().push(ci);
                            } else {
                                cmds[ci].saw_full = true;
                                cmds[ci].lost = true;
                            }
                        }
                    }
                    _ => {
                        // exit flush of parked commands
                        if let Some(q) = parked_q.get_mut(&e.tid) {
                            if let Some(pos) = q.iter().position(|&ci| cmds[ci].entered.is_none() && !cmds[ci].lost) {
                                let ci = q[pos];
                                if full {
                                    cmds[ci].saw_full = true;
                                    cmds[ci].lost = true;
                                } else {
                                    cmds[ci].entered = Some(i);
                                }
                            }
                        }
                    }
                }
            }
        }
        for (_, ci) in open {
            finish_cmd(&mut cmds[ci]);
        }
        // collector cycles and which cycle consumed which command
        let mut cycles: Vec<CycleInfo> = vec![];
        {
            let mut cur: Option<CycleInfo> = None;
            let mut ring: Option<u64> = None;
            for e in log.iter() {
                match e.kind {
                    k if k == fv::P_CYCLE_BEGIN => {
                        cur = Some(CycleInfo {
                            begin_step: e.step,
                            end_step: u32::MAX,
                            tid: e.tid as usize,
                            drain_end: HashMap::new(),
                        });
                        ring = None;
                    }
                    k if k == fv::P_DRAIN_RX => ring = Some(e.a),
                    k if k == fv::P_RECV_EMPTY => {
                        if let (Some(c), Some(r)) = (cur.as_mut(), ring) {
                            if c.tid == e.tid as usize {
                                c.drain_end.insert(r as usize, e.step);
                            }
                        }
                    }
                    k if k == fv::P_CYCLE_END => {
                        if let Some(mut c) = cur.take() {
                            c.end_step = e.step;
                            cycles.push(c);
                        }
                    }
                    _ => {}
                }
            }
            if let Some(c) = cur.take() {
                cycles.push(c);
            }
        }
        // ground truth of consumption: P_RECV events, grouped per drained ring
        // consumed[ring owner] = [(kind, collect ids, cycle index, log index)]
        let mut consumed: HashMap<usize, Vec<(u8, Vec<u64>, usize, usize)>> = HashMap::new();
        {
            let mut cyc: Option<usize> = None;
            let mut ncyc = 0usize;
            let mut ring: Option<usize> = None;
            for (i, e) in log.iter().enumerate() {
                match e.kind {
                    k if k == fv::P_CYCLE_BEGIN => {
                        cyc = Some(ncyc);
                        ring = None;
                    }
                    k if k == fv::P_CYCLE_END => {
                        cyc = None;
                        ncyc += 1;
                    }
                    k if k == fv::P_DRAIN_RX => ring = Some(e.a as usize),
                    k if k == fv::P_RECV => {
                        if let (Some(c), Some(r)) = (cyc, ring) {
                            let kind = (e.a & 0xff) as u8;
                            let item = e.a >> 8;
                            let list = consumed.entry(r).or_default();
                            if kind == 3 && item > 0 {
                                if let Some(last) = list.last_mut() {
                                    last.1.push(e.b);
                                }
                            } else {
                                list.push((kind, vec![e.b], c, i));
                            }
                        }
                    }
                    _ => {}
                }
            }
        }
        // match issued commands with consumed ones, per ring: sent commands (start, submit) that
        // entered the ring keep their order; forced ones (commit, drop) are matched by content
        // the k-th successful push into a ring is the k-th command consumed from it (the ring is
        // FIFO), whatever order parked commands were replayed in
        let mut pushes: HashMap<usize, Vec<usize>> = HashMap::new();
        for (i, e) in log.iter().enumerate() {
            if e.kind == fv::P_PUSH_OUTCOME && e.b == 0 {
                pushes.entry(e.tid as usize).or_default().push(i);
            }
        }
        {
            let mut used: HashMap<usize, Vec<bool>> = HashMap::new();
            for (r, l) in consumed.iter() {
                used.insert(*r, vec![false; l.len()]);
            }
            // commands believed lost (exit flush with a full ring) are matched last, so that among
            // identical commands the consumed ones go to those that entered the ring
            let mut order: Vec<usize> = (0..cmds.len()).filter(|&i| !cmds[i].lost).collect();
            order.extend((0..cmds.len()).filter(|&i| cmds[i].lost));
            for ci in order {
                let c = &cmds[ci];
                if c.lost && !c.force {
                    continue;
                }
                let list = match consumed.get(&c.tid) {
                    Some(l) => l,
                    None => continue,
                };
                let u = used.get_mut(&c.tid).unwrap();
                let pos = (0..list.len()).find(|&k| !u[k] && list[k].0 == c.kind && list[k].1 == c.collects);
                if let Some(k) = pos {
                    u[k] = true;
                    cmds[ci].lost = false;
                    cmds[ci].cycle = Some(list[k].2);
                    cmds[ci].consumed_at = Some(list[k].3);
                    let tid = cmds[ci].tid;
                    if let Some(p) = pushes.get(&tid).and_then(|v| v.get(k)) {
                        cmds[ci].entered = Some(*p);
                    }
                }
            }
        }
        let mut lost_submit_ops = HashSet::new();
        let mut lost_starts = HashSet::new();
        for c in &cmds {
            // only a loss to a ring that was seen full is a permitted omission
            if c.lost && c.saw_full && c.kind == 3 {
                if let Some(o) = c.op {
                    lost_submit_ops.insert(o);
                }
            }
            if c.lost && c.saw_full && c.kind == 0 {
                lost_starts.insert(c.collect);
            }
        }
        // runtime collect ids: the k-th StartCollect command issued inside the op that creates
        // collect c (a root op issues at most one)
        let mut collect_ids = HashMap::new();
        for (ci, col) in model.collects.iter().enumerate() {
            if !col.sampled {
                continue;
            }
            let o = outer(col.create_op);
            let starts: Vec<&CmdFate> = cmds.iter().filter(|c| c.kind == 0 && c.op == Some(o)).collect();
            // inner ops never create roots, so at most one start per outer op
            if let Some(c) = starts.first() {
                collect_ids.insert(ci, c.collect);
            }
        }
        let mut tid_of_thread = hist.tids.clone();
        tid_of_thread.resize(case.threads as usize, usize::MAX);

        let mut a = Analysis {
            case,
            model,
            hist,
            hb,
            ev_op,
            cmds,
            cycles,
            lost_submit_ops,
            lost_starts,
            collect_ids,
            tls_gone_ops,
            id_of: HashMap::new(),
            ids_of: HashMap::new(),
            id_conflicts: vec![],
            delivered: vec![],
            matched: vec![vec![]; model.recs.len()],
            any_full,
            parked_count,
            tid_of_thread,
            by_key: HashMap::new(),
            memo_inv: std::cell::RefCell::new(HashMap::new()),
            memo_batch: std::cell::RefCell::new(HashMap::new()),
        };
        a.match_records();
        a
    }

    fn match_records(&mut self) {
        // ids read off the handles at creation
        for o in &self.hist.ops {
            for (n, id) in &o.learned {
                self.id_of.entry(*n).or_insert(*id);
                let l = self.ids_of.entry(*n).or_default();
                if !l.contains(id) {
                    l.push(*id);
                }
            }
        }
        // learn ids
        for b in &self.hist.batches {
            for r in &b.recs {
                if let Some(n) = parse_node(&r.name, 'n') {
                    let l = self.ids_of.entry(n).or_default();
                    if !l.contains(&r.span_id) {
                        l.push(r.span_id);
                    }
                    if self.model.poll_nodes.contains(&n) {
                        self.id_of.entry(n).or_insert(r.span_id);
                        continue;
                    }
                    match self.id_of.get(&n) {
                        None => {
                            self.id_of.insert(n, r.span_id);
                        }
                        Some(&id) if id != r.span_id => {
                            self.id_conflicts
                                .push(format!("node n{} delivered with span ids {:016x} and {:016x}", n, id, r.span_id));
                        }
                        _ => {}
                    }
                }
            }
        }
        // ids learned from extracted contexts (the span need not have been delivered)
        for (i, o) in self.hist.ops.iter().enumerate() {
            if let (Some(Op::CtxSpan { .. }), Ret::Ctx(Some((_, sid, _)))) = (self.case.ops.get(i).map(|r| &r.op), &o.ret) {
                if let Some(ExpRet::Ctx(Some(cm))) = self.model.rets.get(&node_id(i, None)) {
                    if let PRef::Node(n) = cm.span {
                        self.id_of.entry(n).or_insert(*sid);
                        let l = self.ids_of.entry(n).or_default();
                        if !l.contains(sid) {
                            l.push(*sid);
                        }
                    }
                }
            }
        }
        // exp index by (trace_id, node)
        let mut by_key: HashMap<(u128, u32), Vec<usize>> = HashMap::new();
        for (i, r) in self.model.recs.iter().enumerate() {
            by_key.entry((r.trace_id, r.node)).or_default().push(i);
        }
        self.by_key = by_key.clone();
        let mut delivered = vec![];
        for (bi, b) in self.hist.batches.iter().enumerate() {
            for (ri, r) in b.recs.iter().enumerate() {
                let node = parse_node(&r.name, 'n');
                let mut exp = None;
                if let Some(n) = node {
                    if let Some(cands) = by_key.get(&(r.trace_id, n)) {
                        // exact parent match on an unmatched expectation first
                        // Some(true) parent matches, Some(false) differs, None parent id unknown
                        let pm = |p: &PRef| -> Option<bool> {
                            match p {
                                PRef::Remote(x) => Some(*x == r.parent_id),
                                PRef::Node(n) => match self.ids_of.get(n).map(|l| l.contains(&r.parent_id)) {
                                    // one span per poll: an instance that was not delivered is unknown
                                    Some(false) if self.model.poll_nodes.contains(n) => None,
                                    x => x,
                                },
                            }
                        };
                        for &c in cands {
                            if self.matched[c].is_empty() && pm(&self.model.recs[c].parent) == Some(true) {
                                exp = Some(c);
                                break;
                            }
                        }
                        if exp.is_none() {
                            for &c in cands {
                                if self.matched[c].is_empty() && pm(&self.model.recs[c].parent).is_none() {
                                    exp = Some(c);
                                    break;
                                }
                            }
                        }
                    }
                }
                let di = delivered.len();
                if let Some(c) = exp {
                    self.matched[c].push(di);
                }
                delivered.push(Delivered {
                    batch: bi,
                    idx: ri,
                    node,
                    exp,
                });
            }
        }
        self.delivered = delivered;
    }

    pub fn rec(&self, d: &Delivered) -> &Rec {
        &self.hist.batches[d.batch].recs[d.idx]
    }

    /// expected parent id of an expected record, if it can be known
    pub fn parent_id(&self, p: &PRef) -> Option<u64> {
        match p {
            PRef::Remote(x) => Some(*x),
            PRef::Node(n) => self.id_of.get(n).copied(),
        }
    }

    /// does `id` identify the span/remote parent `p`? None = the span's id was never observed
    pub fn is_id_of(&self, p: &PRef, id: u64) -> Option<bool> {
        match p {
            PRef::Remote(x) => Some(*x == id),
            PRef::Node(n) => match self.ids_of.get(n).map(|l| l.contains(&id)) {
                Some(false) if self.model.poll_nodes.contains(n) => None,
                x => x,
            },
        }
    }

    /// expectations identical to `i` (same trace, node, parent): the same-trace multi-parent case
    pub fn twins(&self, i: usize) -> Vec<usize> {
        let r = &self.model.recs[i];
        match self.by_key.get(&(r.trace_id, r.node)) {
            Some(l) => l.iter().copied().filter(|&j| self.model.recs[j].parent == r.parent).collect(),
            None => vec![i],
        }
    }

    /// consumption cycle of the k-th kind command of runtime collect id
    pub fn cmd_cycles(&self, kind: u8, id: u64) -> Vec<Option<usize>> {
        self.cmds
            .iter()
            .filter(|c| c.kind == kind && c.collects.contains(&id) && !c.lost)
            .map(|c| c.cycle)
            .collect()
    }

    /// Non-atomic cut (finding D2): for model collect `c`, is there a pair of commands x
    /// happens-before y such that the collector consumed y in an earlier cycle than x?
    /// Pairs considered: start -> anything, submit/drop -> commit (of ops ordered by HB).
    pub fn cut_inverted(&self, c: usize) -> bool {
        self.inversion(c).0
    }

    /// the trace was (or may have been) in flight when the reporter was replaced: the new collector
    /// knows nothing of it, so only safety is checked for it (nothing wrong, nothing twice, nothing
    /// of a cancelled trace), not presence
    pub fn relaxed(&self, c: usize) -> bool {
        if self.model.replace_ops.is_empty() {
            return false;
        }
        let root = outer(self.model.collects[c].create_op);
        self.model.replace_ops.iter().any(|r| !self.hb.before(outer(*r), root))
    }

    /// (cross-ring inversion = finding D2, same-ring inversion = commands of one thread reordered)
    pub fn inversion(&self, c: usize) -> (bool, bool) {
        let (cross, same, _) = self.inversion3(c);
        (cross, same)
    }

    /// third flag: a cross-ring inversion in which the ring of the earlier command was not even
    /// visited by the cycle that consumed the later one. The pinned collector holds the registry
    /// lock for the whole drain pass, so every ring that holds a command pushed before the pass
    /// ended is visited by it: this shape is NOT the known finding D2.
    pub fn inversion3(&self, c: usize) -> (bool, bool, bool) {
        if let Some(r) = self.memo_inv.borrow().get(&c) {
            return *r;
        }
        let r = self.inversion3_uncached(c);
        self.memo_inv.borrow_mut().insert(c, r);
        r
    }

    fn inversion3_uncached(&self, c: usize) -> (bool, bool, bool) {
        let id = match self.collect_ids.get(&c) {
            Some(id) => *id,
            None => return (false, false, false),
        };
        let (mut cross, mut same) = (false, false);
        let mut unvisited = false;
        let rel: Vec<&CmdFate> = self.cmds.iter().filter(|x| x.collects.contains(&id) && !x.lost).collect();
        let mut check = |x: &CmdFate, y: &CmdFate| {
            if std::ptr::eq(x, y) {
                return;
            }
            let ordered = match (x.op, y.op) {
                (Some(ox), Some(oy)) => {
                    if ox == oy {
                        x.log_idx < y.log_idx
                    } else {
                        self.hb.before(ox, oy)
                    }
                }
                _ => false,
            };
            if !ordered {
                return;
            }
            // only orders the collector semantics depend on
            let matters = x.kind == 0 || y.kind == 2 || (x.kind == 1 && y.kind == 3) || (x.kind == 1 && y.kind == 2);
            if !matters {
                return;
            }
            let inv = match (x.cycle, y.cycle) {
                (Some(cx), Some(cy)) => cx > cy || (cx == cy && x.tid == y.tid && x.consumed_at > y.consumed_at),
                (None, Some(_)) => !x.lost, // x never consumed, y was
                _ => false,
            };
            if inv {
                if x.tid == y.tid {
                    same = true;
                } else {
                    cross = true;
                    if let Some(cy) = y.cycle {
                        if !self.cycles.get(cy).map(|k| k.drain_end.contains_key(&x.tid)).unwrap_or(true) {
                            unvisited = true;
                        }
                    }
                }
            }
        };
        // the pairs that can matter have a start or a cancel on the left or a commit on the right
        // (a handful of commands each): no need to look at all pairs of a 10 000-command burst
        for x in rel.iter().filter(|x| x.kind == 0 || x.kind == 1) {
            for y in &rel {
                check(x, y);
            }
        }
        for y in rel.iter().filter(|y| y.kind == 2) {
            for x in &rel {
                check(x, y);
            }
        }
        (cross, same, unvisited)
    }

    /// x happens-before-or-with y at the granularity the model has: different script operations by
    /// static happens-before; inside one operation, inner operations run in order and the
    /// operation's own closing actions (a poll's guard drop and span finish) come last
    pub fn ref_before_eq(&self, x: OpRef, y: OpRef) -> bool {
        let (ox, oy) = (outer(x), outer(y));
        if ox != oy {
            return self.hb.before(ox, oy);
        }
        let (kx, ky) = (x % 16, y % 16);
        match (kx, ky) {
            (_, 0) => true,       // y is the operation's own (final) action
            (0, _) => false,      // x is the final action, y an inner step before it
            (a, b) => a <= b,
        }
    }

    pub fn op_executed(&self, o: usize) -> bool {
        self.hist.ops.get(o).map(|x| x.executed).unwrap_or(false)
    }

    pub fn describe_op(&self, o: usize) -> String {
        match self.case.ops.get(o) {
            Some(r) => format!("#{} t{} {:?}", o, r.t, r.op),
            None => format!("#{}", o),
        }
    }

    pub fn events_of_op(&self, o: usize) -> impl Iterator<Item = (usize, &Ev)> {
        self.hist
            .out
            .log
            .iter()
            .enumerate()
            .filter(move |(i, _)| self.ev_op[*i] == o)
    }
}

fn finish_cmd(c: &mut CmdFate) {
    if c.entered.is_none() && !c.parked {
        c.lost = true;
    }
}
