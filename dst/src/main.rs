#![allow(dead_code)]
mod analysis;
mod corpus;
mod driver;
mod exec;
mod gen;
mod minimize;
mod model;
mod oracle;
mod oracle2;
mod oracle3;
mod prog;
mod sim;
mod simcfg;
mod tasks;
mod teardown;

use std::collections::HashMap;

fn arg<'a>(args: &'a [String], name: &str) -> Option<&'a str> {
    args.iter().position(|a| a == name).and_then(|i| args.get(i + 1)).map(|s| s.as_str())
}

fn main() {
    let args: Vec<String> = std::env::args().collect();
    if std::env::var("DST_VERBOSE").is_err() {
        std::panic::set_hook(Box::new(|_| {}));
    }
    let cmd = args.get(1).map(|s| s.as_str()).unwrap_or("");
    let code = match cmd {
        "gen" => {
            let prop = arg(&args, "--prop").unwrap_or("C01");
            let seed: u64 = arg(&args, "--seed").and_then(|s| s.parse().ok()).unwrap_or(1);
            println!("{}", gen::generate(prop, seed).to_json());
            0
        }
        "one" => {
            let prop = arg(&args, "--prop").unwrap_or("C01");
            let seed: u64 = arg(&args, "--seed").and_then(|s| s.parse().ok()).unwrap_or(1);
            let case = gen::generate(prop, seed);
            driver::run_and_print(&case, true)
        }
        "worker" => driver::worker_main(&args),
        "drive" => driver::drive_main(&args),
        "replay" => {
            let path = args.get(2).expect("replay <file>");
            driver::replay_main(path)
        }
        "show" => {
            let path = args.get(2).expect("show <replay file>");
            let s = std::fs::read_to_string(path).expect("read");
            let rf: driver::ReplayFile = serde_json::from_str(&s).expect("parse");
            driver::run_and_print(&rf.case, true)
        }
        "runcase" => {
            // evaluate a case file in this fresh process: prints "VERDICT <json>" (used by the
            // minimiser for runs that may condemn the process)
            let path = args.get(2).expect("runcase <file>");
            driver::runcase_main(path)
        }
        "hashes" => {
            let prop = arg(&args, "--prop").unwrap_or("C01");
            let from: u64 = arg(&args, "--from").and_then(|s| s.parse().ok()).unwrap_or(0);
            let count: u64 = arg(&args, "--count").and_then(|s| s.parse().ok()).unwrap_or(100);
            driver::hashes_main(prop, from, count)
        }
        _ => {
            eprintln!("usage: dst gen|one|worker|drive|replay|runcase|hashes ...");
            let _: HashMap<u8, u8> = HashMap::new();
            2
        }
    };
    std::process::exit(code);
}
