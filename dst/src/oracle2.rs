//! Oracles C02-C06, C08, C10, C11, C16 (delivery shape, cancelable mode, cancel, sampling,
//! attachments, retained state, scopes, contexts, laziness).

use std::collections::{HashMap, HashSet};

use fastrace::verif as fv;

use crate::analysis::*;
use crate::exec::*;
use crate::model::*;
use crate::oracle::*;
use crate::prog::*;
use crate::sim;

fn short(s: &str) -> String {
    s.chars().take(24).collect()
}

fn collect_start_lost(a: &Analysis, c: usize) -> bool {
    // (a trace in flight when the reporter is replaced has lost its entry just the same)
    a.relaxed(c) || a.collect_ids.get(&c).map(|id| a.lost_starts.contains(id)).unwrap_or(false)
}

/// the finish (2) / cancel (1) signal of collect c was parked behind a full ring and then lost in
/// the exit flush of its thread with the ring still full: the only loss of a signal C09 permits
/// ("while the thread lives")
fn collect_signal_lost(a: &Analysis, c: usize, kind: u8) -> bool {
    match a.collect_ids.get(&c) {
        Some(id) => a.cmds.iter().any(|x| x.kind == kind && x.collect == *id && x.lost && x.force && x.parked),
        None => false,
    }
}

/// must expectation i have been delivered when flush op f returned?
pub fn expect_delivered_by(a: &Analysis, i: usize, f: usize) -> bool {
    let r = &a.model.recs[i];
    let o = outer(r.submit_op);
    if !a.hb.before(o, f) || permitted_omission(a, r) {
        return false;
    }
    let col = &a.model.collects[r.collect];
    if !col.cancelable {
        return true;
    }
    let fo_ref = match col.finish_op {
        Some(x) => x,
        None => return false,
    };
    let fo = outer(fo_ref);
    a.hb.before(fo, f)
        && a.op_executed(fo)
        && col.cancels.is_empty()
        && !collect_start_lost(a, r.collect)
        && !collect_signal_lost(a, r.collect, 2)
        && commit_consumed_before(a, r.collect, a.hist.ops[f].start_step, a.hist.ops[f].end_step)
        && a.ref_before_eq(r.submit_op, fo_ref)
}

/// the commit of collect c entered its ring before `step` (a commit parked behind a full ring is
/// kept, not lost, but travels only with the thread's next command or at its exit)
fn commit_consumed_before(a: &Analysis, c: usize, step: u32, _end_step: u32) -> bool {
    match a.collect_ids.get(&c) {
        Some(id) => a
            .cmds
            .iter()
            .any(|x| {
                x.kind == 2
                    && x.collect == *id
                    // a commit parked behind a full ring is kept, but it travels only with the
                    // thread's next command or at its exit: what counts is when it entered the ring
                    && x.consumed_at.is_some()
                    && x.entered.map(|li| a.hist.out.log[li].step < step).unwrap_or(false)
            }),
        None => false,
    }
}

fn flush_ops(a: &Analysis) -> Vec<usize> {
    let rep = a.model.reporter_op.map(outer);
    a.case
        .ops
        .iter()
        .enumerate()
        .filter(|(f, r)| {
            matches!(r.op, Op::Flush)
                && a.op_executed(*f)
                && a.hist.ops[*f].panic.is_none()
                && rep.map(|x| a.hb.before(x, *f)).unwrap_or(false)
        })
        .map(|(f, _)| f)
        .collect()
}

fn presence<F: Fn(&ExpRec) -> bool>(a: &Analysis, v: &mut Verdict, prop: &str, clause: &str, filter: F) {
    for f in flush_ops(a) {
        let end_step = a.hist.ops[f].end_step;
        for (i, r) in a.model.recs.iter().enumerate() {
            if !filter(r) || !expect_delivered_by(a, i, f) {
                continue;
            }
            // whether a held trace survives a non-atomic cut is C03's and C04's question
            if a.model.collects[r.collect].cancelable && prop != "C03" && prop != "C04" && a.inversion(r.collect) != (false, false) {
                continue;
            }
            let ok = delivered_batch(a, i).map(|b| a.hist.batches[b].step <= end_step).unwrap_or(false);
            if !ok {
                let col = &a.model.collects[r.collect];
                let sig = if col.cancelable {
                    format!("{}:cancelable:{}", if r.local { "local" } else { "span" }, cut_sig(a, r.collect))
                } else {
                    rec_sig(a, r)
                };
                v.add(
                    prop,
                    clause,
                    sig,
                    format!(
                        "record n{} of trace {:032x} (submitted by op {}) must have been delivered when flush #{} returned but was not",
                        r.node,
                        r.trace_id,
                        a.describe_op(outer(r.submit_op)),
                        f
                    ),
                );
            }
        }
    }
}

/// every delivered record corresponds to something the program recorded (trace, span, parent)
fn no_spurious(a: &Analysis, v: &mut Verdict, prop: &str) {
    let m = a.model;
    for d in &a.delivered {
        if d.exp.is_some() {
            continue;
        }
        let r = a.rec(d);
        // the spans the tracing reporter itself records (a fault of the run, not of the program)
        if a.case.sched.reporter_traces && (r.trace_id >> 12) == (0xDEAD_4000u128 >> 12) && r.name.starts_with("xrep") {
            continue;
        }
        let node_known = d.node.map(|n| m.recs.iter().any(|x| x.node == n)).unwrap_or(false);
        let in_trace = d.node.map(|n| m.recs.iter().any(|x| x.node == n && x.trace_id == r.trace_id)).unwrap_or(false);
        let dup = d
            .node
            .map(|n| {
                m.recs
                    .iter()
                    .enumerate()
                    .any(|(i, x)| x.node == n && x.trace_id == r.trace_id && a.is_id_of(&x.parent, r.parent_id) == Some(true) && !a.matched[i].is_empty())
            })
            .unwrap_or(false);
        let (clause, sig, what) = if dup {
            ("once", "duplicate", "delivered more often than it was recorded")
        } else if in_trace {
            ("parent", "wrong-parent", "delivered with a parent id that is not the id of its parent at creation")
        } else if node_known {
            ("trace", "wrong-trace", "delivered in a trace it does not belong to")
        } else {
            ("spurious", "spurious", "delivered although the program recorded no such span (or a non-recording handle produced it)")
        };
        v.add(
            prop,
            &format!("{}.{}", prop, clause),
            sig.to_string(),
            format!(
                "record {} trace {:032x} id {:016x} parent {:016x}: {}",
                short(&r.name),
                r.trace_id,
                r.span_id,
                r.parent_id,
                what
            ),
        );
    }
}

// ---------------------------------------------------------------------------------------------
// C02

pub fn c02(a: &Analysis, v: &mut Verdict) {
    no_spurious(a, v, "C02");
    for c in &a.id_conflicts {
        v.add("C02", "C02.ids", "same-span-two-ids".into(), c.clone());
    }
    // ids non-zero and pairwise distinct across distinct spans
    let mut seen: HashMap<u64, u32> = HashMap::new();
    for d in &a.delivered {
        let r = a.rec(d);
        if r.span_id == 0 {
            v.add("C02", "C02.ids", "zero-id".into(), format!("record {} has span id 0", short(&r.name)));
        }
        if let Some(n) = d.node {
            if let Some(&other) = seen.get(&r.span_id) {
                if other != n {
                    v.add(
                        "C02",
                        "C02.ids",
                        "id-collision".into(),
                        format!("distinct spans n{} and n{} were delivered with the same span id {:016x}", other, n, r.span_id),
                    );
                }
            } else {
                seen.insert(r.span_id, n);
            }
        }
    }
    // a span with several parents is delivered once per parent
    let multi: HashSet<u32> = {
        let mut cnt: HashMap<u32, usize> = HashMap::new();
        for r in &a.model.recs {
            *cnt.entry(r.node).or_insert(0) += 1;
        }
        cnt.into_iter().filter(|(_, c)| *c > 1).map(|(n, _)| n).collect()
    };
    presence(a, v, "C02", "C02.multi", |r| multi.contains(&r.node));
    // trigger
    let nested = a.model.recs.iter().any(|r| r.local && matches!(r.parent, PRef::Node(_)) && r.scope_op.is_some());
    v.trigger = (nested || !multi.is_empty()) && a.hist.out.cycles >= 2;
    v.probe("multi_parent_spans", multi.len() as u64);
}

// ---------------------------------------------------------------------------------------------
// C03

fn batches_of_collect(a: &Analysis, c: usize) -> Vec<usize> {
    let mut b: Vec<usize> = a
        .delivered
        .iter()
        .filter(|d| d.exp.map(|e| a.model.recs[e].collect == c).unwrap_or(false))
        .map(|d| d.batch)
        .collect();
    b.sort_unstable();
    b.dedup();
    b
}

fn root_batches(a: &Analysis, c: usize) -> Vec<usize> {
    let root = a.model.collects[c].root_node;
    let mut b: Vec<usize> = a
        .delivered
        .iter()
        .filter(|d| d.exp.map(|e| a.model.recs[e].collect == c && a.model.recs[e].node == root).unwrap_or(false))
        .map(|d| d.batch)
        .collect();
    b.sort_unstable();
    b.dedup();
    b
}

pub fn c03(a: &Analysis, v: &mut Verdict) {
    c03_core(a, v, "C03", false);
}

/// the cancelable-mode clauses, reported under `prop` (C03 itself, or the adapter properties
/// C13/C14 for what the last poll recorded); `skip_inverted`: leave traces with a cross-ring cut
/// inversion to C03 (finding D2)
pub fn c03_core(a: &Analysis, v: &mut Verdict, prop: &str, skip_inverted: bool) {
    let m = a.model;
    if !m.cancelable() {
        return;
    }
    no_spurious(a, v, prop);
    let flushes = flush_ops(a);
    for (c, col) in m.collects.iter().enumerate() {
        if !col.sampled {
            continue;
        }
        if skip_inverted && a.inversion(c).0 {
            continue;
        }
        let bs = batches_of_collect(a, c);
        // hold: nothing before the root's finish was invoked
        match col.finish_op {
            Some(fo) if a.op_executed(outer(fo)) => {
                let start = a.hist.ops[outer(fo)].start_step;
                for &b in &bs {
                    if a.hist.batches[b].step < start {
                        v.add(
                            prop,
                            &format!("{}.hold", prop),
                            "before-root-finish".into(),
                            format!("a record of trace {:032x} was reported (batch {}) before its root span finished", col.trace_id, b),
                        );
                    }
                }
            }
            _ => {
                if !bs.is_empty() {
                    v.add(
                        prop,
                        &format!("{}.hold", prop),
                        "root-unfinished".into(),
                        format!("records of trace {:032x} were reported although its root span never finished", col.trace_id),
                    );
                }
                continue;
            }
        }
        let fo = outer(col.finish_op.unwrap());
        if !col.cancels.is_empty() {
            continue; // C04's business
        }
        let rb = root_batches(a, c);
        // single + whole + after, judged at a flush that happens after the root finish
        let f = match flushes.iter().copied().find(|&f| a.hb.before(fo, f)) {
            Some(f) => f,
            None => continue,
        };
        if collect_start_lost(a, c) || collect_signal_lost(a, c, 2) || !commit_consumed_before(a, c, a.hist.ops[f].start_step, a.hist.ops[f].end_step) {
            continue;
        }
        let root_exp = m.recs.iter().position(|r| r.collect == c && r.node == col.root_node);
        let root_lost = root_exp.map(|i| permitted_omission(a, &m.recs[i])).unwrap_or(true);
        if root_lost {
            continue;
        }
        let end_step = a.hist.ops[f].end_step;
        let rb_by_f: Vec<usize> = rb.iter().copied().filter(|&b| a.hist.batches[b].step <= end_step).collect();
        if rb_by_f.len() != 1 || rb.len() != 1 {
            let straddle = cut_sig(a, c);
            v.add(
                prop,
                &format!("{}.single", prop),
                format!("root-in-{}-batches:{}", rb.len().min(2), straddle),
                format!(
                    "root of trace {:032x} finished uncancelled (op #{}) before flush #{} but was delivered in {} report calls ({} by the flush)",
                    col.trace_id,
                    fo,
                    f,
                    rb.len(),
                    rb_by_f.len()
                ),
            );
            continue;
        }
        let rbatch = rb[0];
        v.trigger |= m.recs.iter().any(|r| r.collect == c && a.case.ops[outer(r.submit_op)].t != a.case.ops[fo].t);
        for (i, r) in m.recs.iter().enumerate() {
            if r.collect != c || permitted_omission(a, r) {
                continue;
            }
            let o = outer(r.submit_op);
            if !a.ref_before_eq(r.submit_op, col.finish_op.unwrap()) {
                continue;
            }
            let ok = a.twins(i).iter().any(|&j| a.matched[j].iter().any(|&d| a.delivered[d].batch == rbatch));
            if !ok {
                let elsewhere = delivered_batch(a, i).is_some();
                v.add(
                    prop,
                    &format!("{}.whole", prop),
                    format!("{}:{}", if r.local { "local" } else { "span" }, cut_sig(a, c)),
                    format!(
                        "span n{} of trace {:032x} finished (op {}) before the root finished (op #{}) but is not in the root's report call{}",
                        r.node,
                        col.trace_id,
                        a.describe_op(o),
                        fo,
                        if elsewhere { " (delivered in another call)" } else { " (never delivered)" }
                    ),
                );
            }
        }
        for &b in &bs {
            if b > rbatch {
                v.add(
                    prop,
                    &format!("{}.after", prop),
                    "late-record".into(),
                    format!("trace {:032x}: a record was reported in batch {} after the root's batch {}", col.trace_id, b, rbatch),
                );
            }
        }
    }
}

/// did a collector cycle straddle the root's finish: a drain pass was in progress (between
/// P_CYCLE_BEGIN and P_CYCLE_END) at some point between the earliest submit of the trace and the
/// end of the root's finish op. Used only to name the violation class.
fn cut_sig(a: &Analysis, c: usize) -> &'static str {
    match a.inversion3(c) {
        (_, true, _) => "ring-reordered",
        (true, false, true) => "inverted-cut-unvisited-ring",
        (true, false, false) => "inverted-cut",
        _ => "consistent-cut",
    }
}

#[allow(dead_code)]
fn straddle_sig(a: &Analysis, _c: usize, fo: usize) -> &'static str {
    let (s, e) = (a.hist.ops[fo].start_step, a.hist.ops[fo].end_step);
    let mut begin: Option<u32> = None;
    for ev in &a.hist.out.log {
        if ev.kind == fv::P_CYCLE_BEGIN {
            begin = Some(ev.step);
        } else if ev.kind == fv::P_CYCLE_END {
            if let Some(b) = begin {
                if b <= e && ev.step >= s {
                    return "cycle-overlaps-root-finish";
                }
            }
            begin = None;
        }
    }
    "no-overlap"
}

// ---------------------------------------------------------------------------------------------
// C04

pub fn c04(a: &Analysis, v: &mut Verdict) {
    let m = a.model;
    no_spurious(a, v, "C04");
    for (c, col) in m.collects.iter().enumerate() {
        if col.cancels.is_empty() {
            continue;
        }
        v.probe("cancelled_roots", 1);
        if col.cancelable {
            // cancel() called (HB-before the finish by the hand-off protocol): nothing, ever
            let bs = batches_of_collect(a, c);
            // a cancel parked behind a full ring and then lost when its thread exited with the
            // ring still full: C09 keeps signals only "while the thread lives"
            let lost_at_exit = a
                .collect_ids
                .get(&c)
                .map(|id| a.cmds.iter().any(|x| x.kind == 1 && x.collect == *id && x.lost && x.force && x.parked))
                .unwrap_or(false);
            if !bs.is_empty() && lost_at_exit {
                v.probe("cancel_lost_at_exit", 1);
            } else if !bs.is_empty() {
                let x = outer(col.cancels[0]);
                let parked = a
                    .collect_ids
                    .get(&c)
                    .map(|id| a.cmds.iter().any(|k| k.kind == 1 && k.collect == *id && k.parked))
                    .unwrap_or(false);
                let cancel_t = a.case.ops[x].t;
                let other = m.recs.iter().any(|r| r.collect == c && a.case.ops[outer(r.submit_op)].t != cancel_t);
                let _ = other;
                v.add(
                    "C04",
                    "C04.none",
                    format!("{}:{}", if parked { "cancel-parked" } else { "cancel-in-ring" }, cut_sig(a, c)),
                    format!(
                        "trace {:032x} was cancelled (op #{}) but {} record(s) of it were delivered (first in batch {})",
                        col.trace_id,
                        x,
                        a.delivered.iter().filter(|d| d.exp.map(|e| m.recs[e].collect == c).unwrap_or(false)).count(),
                        bs[0]
                    ),
                );
            }
            if m.recs.iter().any(|r| r.collect == c) {
                v.trigger = true;
            }
        }
    }
    // others: every other trace (and every trace in the default configuration, cancelled or not)
    // still gets what it is owed
    presence(a, v, "C04", "C04.others", |r| {
        let col = &a.model.collects[r.collect];
        col.cancels.is_empty() || !col.cancelable
    });
    // noop: in the default configuration a cancel must not change record contents either
    if !m.cancelable() {
        let cancelled: HashSet<usize> = m.collects.iter().enumerate().filter(|(_, c)| !c.cancels.is_empty()).map(|(i, _)| i).collect();
        if !cancelled.is_empty() {
            check_attachments(a, v, "C04", "C04.noop", true, &|r| cancelled.contains(&r.collect));
        }
    }
}

// ---------------------------------------------------------------------------------------------
// C05

fn check_ctx_returns(a: &Analysis, v: &mut Verdict, prop: &str) {
    let m = a.model;
    let mut check = |opref: OpRef, o: usize, ret: &Ret| {
        let exp = match m.rets.get(&opref) {
            Some(ExpRet::Ctx(e)) => e,
            _ => return,
        };
        let got = match ret {
            Ret::Ctx(g) => g,
            _ => return,
        };
        let kind = op_kind(a, o);
        match (exp, got) {
            (None, None) => {}
            (None, Some(g)) => v.add(
                prop,
                &format!("{}.ctx", prop),
                format!("{}:some-for-none", kind),
                format!("op {} returned a context (trace {:032x}) where none exists", a.describe_op(o), g.0),
            ),
            (Some(e), None) => v.add(
                prop,
                &format!("{}.ctx", prop),
                format!("{}:none-for-some", kind),
                format!("op {} returned None, expected a context of trace {:032x}", a.describe_op(o), e.trace_id),
            ),
            (Some(e), Some(g)) => {
                if e.trace_id != g.0 {
                    v.add(
                        prop,
                        &format!("{}.ctx", prop),
                        format!("{}:trace", kind),
                        format!("op {} returned trace {:032x}, expected {:032x}", a.describe_op(o), g.0, e.trace_id),
                    );
                }
                if e.sampled != g.2 {
                    v.add(
                        prop,
                        &format!("{}.ctx", prop),
                        format!("{}:sampled", kind),
                        format!("op {} returned sampled={}, expected {}", a.describe_op(o), g.2, e.sampled),
                    );
                }
                if a.is_id_of(&e.span, g.1) == Some(false) {
                    let id = a.parent_id(&e.span).unwrap_or(0);
                    {
                        v.add(
                            prop,
                            &format!("{}.ctx", prop),
                            format!("{}:span", kind),
                            format!(
                                "op {} returned span id {:016x}, but the span it must identify ({:?}) has id {:016x}",
                                a.describe_op(o),
                                g.1,
                                e.span,
                                id
                            ),
                        );
                    }
                }
            }
        }
    };
    for (o, out) in a.hist.ops.iter().enumerate() {
        if !out.executed || out.panic.is_some() {
            continue;
        }
        check(node_id(o, None), o, &out.ret);
        for (r, ret) in &out.inner_rets {
            check(*r, o, ret);
        }
    }
}

pub fn c05(a: &Analysis, v: &mut Verdict) {
    let m = a.model;
    // nothing of an unsampled trace, ever: every delivered record must match a sampled expectation
    for d in &a.delivered {
        if d.exp.is_some() {
            continue;
        }
        let r = a.rec(d);
        let unsampled_trace = m.collects.iter().any(|c| !c.sampled && c.trace_id == r.trace_id);
        if unsampled_trace {
            v.add(
                "C05",
                "C05.leak",
                "unsampled-delivered".into(),
                format!("record {} was delivered in trace {:032x}, whose root was created with sampled=false", short(&r.name), r.trace_id),
            );
        }
    }
    no_spurious(a, v, "C05");
    check_ctx_returns(a, v, "C05");
    // mixed parents: delivered in the sampled parents' traces
    let mixed: HashSet<u32> = {
        let mut s = HashSet::new();
        for sl in &m.slots {
            if let SlotM::Span(sp) = sl {
                if sp.items.iter().any(|i| i.sampled) && sp.items.iter().any(|i| !i.sampled) {
                    s.insert(sp.node);
                }
            }
        }
        // finished spans are gone from the slots: recompute from recs of nodes that also have an
        // unsampled item is not possible there, so use the model counter as trigger only
        s
    };
    presence(a, v, "C05", "C05.mixed", |_| true);
    let _ = mixed;
    v.trigger = m.collects.iter().any(|c| !c.sampled) && m.collects.iter().any(|c| c.sampled);
    v.probe("unsampled_roots", m.collects.iter().filter(|c| !c.sampled).count() as u64);
}

// ---------------------------------------------------------------------------------------------
// C06 (and the attachment checks reused by C04.noop / C09)

fn att_required(a: &Analysis, att: &ExpAtt, target_rec: &ExpRec) -> bool {
    // the proviso of C06: atomic cycles; the target finishes no later than its trace's root; the
    // carrying scope ended (the attachment was submitted) before the target finished; nothing
    // involved was lost to a full ring
    if !a.case.sched.atomic_cycles {
        return false;
    }
    let col = &a.model.collects[att.collect];
    let t_submit = outer(target_rec.submit_op);
    let a_submit = outer(att.submit_op);
    if !a.op_executed(t_submit) || !a.op_executed(a_submit) {
        return false;
    }
    if a.hist.ops[a_submit].panic.is_some() || a.hist.ops[t_submit].panic.is_some() {
        return false;
    }
    if a.lost_submit_ops.contains(&a_submit) || a.lost_submit_ops.contains(&t_submit) || a.tls_gone_ops.contains(&a_submit) {
        return false;
    }
    if collect_start_lost(a, att.collect) {
        return false;
    }
    // carried before the target finished (same op counts: entries of the same set)
    if !a.ref_before_eq(att.submit_op, target_rec.submit_op) {
        return false;
    }
    // target finishes no later than the root
    match col.finish_op {
        Some(fo_ref) => {
            let fo = outer(fo_ref);
            if !a.ref_before_eq(target_rec.submit_op, fo_ref) {
                return false;
            }
            // main's ThreadEnd drops every remaining slot in slot order: the root may go first
            if t_submit == fo && target_rec.node != col.root_node && matches!(a.case.ops[fo].op, Op::ThreadEnd) {
                return false;
            }
            if col.cancelable && (!col.cancels.is_empty()) {
                return false;
            }
        }
        None => {
            // root never finishes inside the script (finished by main's ThreadEnd): the target
            // certainly finished before it
        }
    }
    true
}

/// checks attachments on delivered records. `exact`: also demand presence (subject to proviso).
pub fn check_attachments(a: &Analysis, v: &mut Verdict, prop: &str, clause_exact: &str, exact: bool, filter: &dyn Fn(&ExpRec) -> bool) {
    let m = a.model;
    // attachments by (target node, collect)
    let mut by_target: HashMap<(u32, usize), Vec<usize>> = HashMap::new();
    for (i, at) in m.atts.iter().enumerate() {
        if let PRef::Node(n) = at.target {
            by_target.entry((n, at.collect)).or_default().push(i);
        }
    }
    for (ei, er) in m.recs.iter().enumerate() {
        if !filter(er) {
            continue;
        }
        let atts: Vec<usize> = by_target.get(&(er.node, er.collect)).cloned().unwrap_or_default();
        let copies = m.recs.iter().filter(|x| x.node == er.node && x.collect == er.collect).count();
        if copies > 1 && prop != "C06" {
            // attachments to a span with two parents in one trace: C06's question (finding D8)
            continue;
        }
        for &di in &a.matched[ei] {
            let d = &a.delivered[di];
            let r = a.rec(d);
            // ---- safety: every delivered property / event is attributable, unaltered, not duplicated
            let mut used_creation = vec![false; er.props.len()];
            let mut used_att_prop: HashMap<(usize, usize), u32> = HashMap::new();
            let mut positions: Vec<(usize, usize, usize)> = vec![]; // (att idx, j, position)
            for (pos, (k, val)) in r.props.iter().enumerate() {
                if let Some(j) = er.props.iter().enumerate().position(|(j, (ek, _))| ek == k && !used_creation[j]) {
                    if &er.props[j].1 != val {
                        v.add(prop, &format!("{}.safe", prop), "value-altered".into(), format!("property {} of n{} delivered with an altered value", short(k), er.node));
                    }
                    if j != pos {
                        v.add(prop, &format!("{}.safe", prop), "creation-order".into(), format!("creation-time properties of n{} are not delivered first and in order", er.node));
                    }
                    used_creation[j] = true;
                    continue;
                }
                let mut found = false;
                for &ai in &atts {
                    if let Payload::Props(ps) = &m.atts[ai].payload {
                        if let Some(j) = ps.iter().position(|(ek, _)| ek == k) {
                            if &ps[j].1 != val {
                                v.add(prop, &format!("{}.safe", prop), "value-altered".into(), format!("property {} of n{} delivered with an altered value", short(k), er.node));
                            }
                            let cnt = used_att_prop.entry((ai, j)).or_insert(0);
                            *cnt += 1;
                            if *cnt == 1 {
                                positions.push((ai, j, pos));
                            }
                            found = true;
                            break;
                        }
                    }
                }
                if !found {
                    let elsewhere = m.atts.iter().any(|x| matches!(&x.payload, Payload::Props(ps) if ps.iter().any(|(ek, _)| ek == k)))
                        || m.recs.iter().any(|x| x.props.iter().any(|(ek, _)| ek == k));
                    v.add(
                        prop,
                        &format!("{}.safe", prop),
                        if elsewhere { "wrong-span".into() } else { "foreign-property".into() },
                        format!("record n{} carries property {} which was {}", er.node, short(k), if elsewhere { "attached to a different span" } else { "never attached" }),
                    );
                }
            }
            // the same attachment can legitimately arrive several times (a detached set pushed
            // twice under the same span): multiplicity = attachments sharing the making op
            let mult = |ai: usize| -> u32 {
                let mut subs: Vec<OpRef> = atts.iter().filter(|&&x| m.atts[x].made_op == m.atts[ai].made_op).map(|&x| m.atts[x].submit_op).collect();
                subs.sort_unstable();
                subs.dedup();
                subs.len() as u32
            };
            for ((ai, j), n) in &used_att_prop {
                if *n > mult(*ai) {
                    let dupsig = if copies > 1 { "duplicated:same-trace-copies" } else { "duplicated" };
                    v.add(
                        prop,
                        &format!("{}.safe", prop),
                        dupsig.into(),
                        format!("property #{} attached by op {} appears {} times on record n{}", j, a.describe_op(outer(m.atts[*ai].made_op)), n, er.node),
                    );
                }
            }
            let mut used_ev: HashMap<usize, u32> = HashMap::new();
            let mut ev_positions: Vec<(usize, usize)> = vec![];
            for (pos, e) in r.events.iter().enumerate() {
                let mut found = false;
                for &ai in &atts {
                    if let Payload::Event { name, props } = &m.atts[ai].payload {
                        if name == &e.name {
                            if props != &e.props {
                                v.add(prop, &format!("{}.safe", prop), "event-altered".into(), format!("event {} on n{} delivered with altered properties", short(name), er.node));
                            }
                            let cnt = used_ev.entry(ai).or_insert(0);
                            *cnt += 1;
                            if *cnt == 1 {
                                ev_positions.push((ai, pos));
                            }
                            found = true;
                            break;
                        }
                    }
                }
                if !found {
                    let elsewhere = m.atts.iter().any(|x| matches!(&x.payload, Payload::Event{name, ..} if name == &e.name));
                    v.add(
                        prop,
                        &format!("{}.safe", prop),
                        if elsewhere { "event-wrong-span".into() } else { "foreign-event".into() },
                        format!("record n{} carries event {} which was {}", er.node, short(&e.name), if elsewhere { "attached to a different span" } else { "never recorded" }),
                    );
                }
            }
            for (ai, n) in &used_ev {
                if *n > mult(*ai) {
                    let dupsig = if copies > 1 { "event-duplicated:same-trace-copies" } else { "event-duplicated" };
                    v.add(prop, &format!("{}.safe", prop), dupsig.into(), format!("event of op {} appears {} times on record n{}", a.describe_op(outer(m.atts[*ai].made_op)), n, er.node));
                }
            }
            // ---- order: same route, same thread, same carrier (or the handle route)
            let ordered = |x: &ExpAtt, y: &ExpAtt| -> bool {
                x.route == y.route
                    && x.thread == y.thread
                    && (x.route == Route::Handle || (x.submit_op == y.submit_op && x.scope_op == y.scope_op && x.from_set == y.from_set))
            };
            // program order of one thread: the operations re-entered from inside an operation's
            // closure complete before that operation's own attachment is made
            let okey = |o: OpRef| -> (usize, usize) { (outer(o), if o % 16 == 0 { 16 } else { (o % 16) as usize }) };
            for i in 0..positions.len() {
                for j in 0..positions.len() {
                    let (ai, ji, pi) = positions[i];
                    let (aj, jj, pj) = positions[j];
                    let (x, y) = (&m.atts[ai], &m.atts[aj]);
                    if ordered(x, y) && (okey(x.made_op), ji) < (okey(y.made_op), jj) && pi > pj {
                        v.add(prop, &format!("{}.order", prop), format!("props:{:?}", x.route), format!("properties attached to n{} by one thread through one route are delivered out of order", er.node));
                    }
                }
            }
            for i in 0..ev_positions.len() {
                for j in 0..ev_positions.len() {
                    let (ai, pi) = ev_positions[i];
                    let (aj, pj) = ev_positions[j];
                    let (x, y) = (&m.atts[ai], &m.atts[aj]);
                    if ordered(x, y) && okey(x.made_op) < okey(y.made_op) && pi > pj {
                        v.add(prop, &format!("{}.order", prop), format!("events:{:?}", x.route), format!("events attached to n{} by one thread through one route are delivered out of order", er.node));
                    }
                }
            }
            // ---- presence
            if exact {
                for (j, (k, _)) in er.props.iter().enumerate() {
                    if !used_creation[j] {
                        v.add(prop, clause_exact, "creation-missing".into(), format!("creation-time property {} missing on record n{}", short(k), er.node));
                    }
                }
                for &ai in &atts {
                    let at = &m.atts[ai];
                    // representative of the group of identical attachments (same making op)
                    let rep = *atts.iter().find(|&&x| m.atts[x].made_op == at.made_op).unwrap();
                    if rep != ai {
                        continue;
                    }
                    let required = {
                        let mut subs: Vec<OpRef> = atts
                            .iter()
                            .filter(|&&x| m.atts[x].made_op == at.made_op && att_required(a, &m.atts[x], er))
                            .map(|&x| m.atts[x].submit_op)
                            .collect();
                        subs.sort_unstable();
                        subs.dedup();
                        subs.len() as u32
                    };
                    if required == 0 {
                        continue;
                    }
                    let missing = match &at.payload {
                        Payload::Props(ps) => (0..ps.len()).any(|j| used_att_prop.get(&(ai, j)).copied().unwrap_or(0) < required),
                        Payload::Event { .. } => used_ev.get(&ai).copied().unwrap_or(0) < required,
                    };
                    if missing {
                        let sig = format!(
                            "{}:{:?}:{}",
                            if copies > 1 { "same-trace-copies" } else { "single-copy" },
                            at.route,
                            if matches!(at.payload, Payload::Props(_)) { "props" } else { "event" }
                        );
                        v.add(
                            prop,
                            clause_exact,
                            sig,
                            format!(
                                "attachment made by op {} to span n{} (trace {:032x}) is missing on the delivered record (parent {:016x})",
                                a.describe_op(outer(at.made_op)),
                                er.node,
                                er.trace_id,
                                r.parent_id
                            ),
                        );
                    }
                }
            }
        }
    }
}

pub fn c06(a: &Analysis, v: &mut Verdict) {
    no_spurious(a, v, "C06");
    check_attachments(a, v, "C06", "C06.exact", true, &|_| true);
    // trigger: an attachment submitted in an earlier cycle than its target arrived
    let m = a.model;
    let mut later = 0u64;
    for at in &m.atts {
        if let PRef::Node(n) = at.target {
            if let Some(er) = m.recs.iter().find(|r| r.node == n && r.collect == at.collect) {
                let (sa, st) = (outer(at.submit_op), outer(er.submit_op));
                if sa != st && a.op_executed(sa) && a.op_executed(st) {
                    // a cycle ended between the two ops
                    let (e1, s2) = (a.hist.ops[sa].end_step, a.hist.ops[st].start_step);
                    if a.hist.out.log.iter().any(|e| e.kind == fv::P_CYCLE_END && e.step > e1 && e.step < s2) {
                        later += 1;
                    }
                }
            }
        }
    }
    v.probe("dangling_mounted_in_later_cycle", later);
    v.probe("attachments", m.atts.len() as u64);
    v.trigger = later > 0;
}

// ---------------------------------------------------------------------------------------------
// C08

pub fn c08(a: &Analysis, v: &mut Verdict) {
    let m = a.model;
    let flushes = flush_ops(a);
    let log = &a.hist.out.log;
    for (s, rec) in a.case.ops.iter().enumerate() {
        if !matches!(rec.op, Op::Stats) || !a.op_executed(s) {
            continue;
        }
        let st = match &a.hist.ops[s].ret {
            Ret::Stats(st) => st.clone(),
            _ => continue,
        };
        // the two most recent flushes that happen before this probe
        let fl: Vec<usize> = flushes.iter().copied().filter(|&f| a.hb.before(f, s)).collect();
        if fl.len() < 2 {
            continue;
        }
        let f2 = fl[fl.len() - 1];
        let f1 = fl[fl.len() - 2];
        if !a.hb.before(f1, f2) {
            continue;
        }
        // quiescent cut: every root created so far was finished or cancelled before f1, and no
        // operation that could send a command is concurrent with or after f1 (other than on
        // threads that are done)
        let mut quiescent = true;
        for (o, r) in a.case.ops.iter().enumerate() {
            if o == s || o == f1 || o == f2 {
                continue;
            }
            let sends = !matches!(r.op, Op::Stats | Op::Flush | Op::Cycle | Op::Join { .. } | Op::Spawn { .. } | Op::Sleep { .. } | Op::Advance { .. } | Op::SetReporter { .. } | Op::ReplaceReporter { .. } | Op::CycleBurst { .. });
            if sends && !a.hb.before(o, f1) && !a.hb.before(s, o) {
                quiescent = false;
                break;
            }
        }
        if !quiescent {
            continue;
        }
        let mut unfinished = false;
        let mut exempt = false;
        for (c, col) in m.collects.iter().enumerate() {
            if !col.sampled || !a.hb.before(outer(col.create_op), f1) {
                continue;
            }
            let done = col.finish_op.map(|fo| a.hb.before(outer(fo), f1)).unwrap_or(false);
            if !done {
                unfinished = true;
            }
            if collect_signal_lost(a, c, 2) {
                exempt = true;
            }
            // a finish/cancel signal parked behind a full ring is kept but only travels with the
            // thread's next command or at its exit: until then the trace is legitimately retained
            if let Some(id) = a.collect_ids.get(&c) {
                let f1s = a.hist.ops[f1].start_step;
                if a.cmds.iter().any(|x| {
                    (x.kind == 2 || x.kind == 1) && x.collect == *id && x.parked && x.entered.map(|li| a.hist.out.log[li].step >= f1s).unwrap_or(true)
                }) {
                    exempt = true;
                }
            }
        }
        if unfinished || exempt {
            continue;
        }
        v.probe("quiescent_cuts", 1);
        v.trigger |= m.collects.len() >= 3 && a.hist.out.log.iter().any(|e| e.kind == sim::K_THREAD_FIN && e.step < a.hist.ops[s].start_step);
        if st.active != 0 || st.buffered != 0 || st.danglings != 0 {
            // classify: was some start seen a cycle after its commit?
            let inverted = (0..m.collects.len()).any(|c| a.cut_inverted(c));
            v.add(
                "C08",
                "C08.traces",
                format!("{}:{}", if st.active > 0 { "entry-retained" } else { "parts-retained" }, if inverted { "inverted-cut" } else { "consistent-cut" }),
                format!(
                    "after every trace finished and two flushes ran, the collector still retains active_collectors={} buffered_span_sets={} danglings={} (probe op #{})",
                    st.active, st.buffered, st.danglings, s
                ),
            );
        }
        // receivers: threads that registered and are still alive
        let s_start = a.hist.ops[s].start_step;
        let f1_start = a.hist.ops[f1].start_step;
        let mut registered: Vec<u16> = vec![];
        for e in log.iter() {
            if e.kind == fv::P_REGISTER && e.step <= s_start && !registered.contains(&e.tid) {
                registered.push(e.tid);
            }
        }
        let fin_step = |tid: u16| -> Option<u32> { log.iter().find(|e| e.kind == sim::K_THREAD_FIN && e.a == tid as u64).map(|e| e.step) };
        let lower = registered.iter().filter(|&&t| fin_step(t).map(|x| x > s_start).unwrap_or(true)).count();
        let upper = registered.iter().filter(|&&t| fin_step(t).map(|x| x >= f1_start).unwrap_or(true)).count();
        if st.receivers < lower || st.receivers > upper {
            v.add(
                "C08",
                "C08.threads",
                if st.receivers > upper { "receiver-retained".into() } else { "receiver-dropped".into() },
                format!(
                    "collector holds {} receivers after two flushes, but between {} and {} threads that ever sent a command are alive (probe op #{})",
                    st.receivers, lower, upper, s
                ),
            );
        }
    }
    // mid-run bound: never more entries than roots created
    for (s, rec) in a.case.ops.iter().enumerate() {
        if !matches!(rec.op, Op::Stats) || !a.op_executed(s) {
            continue;
        }
        if let Ret::Stats(st) = &a.hist.ops[s].ret {
            let e = a.hist.ops[s].end_step;
            let created = m
                .collects
                .iter()
                .filter(|c| c.sampled && a.op_executed(outer(c.create_op)) && a.hist.ops[outer(c.create_op)].start_step <= e)
                .count();
            if st.active > created {
                v.add("C08", "C08.bound", "more-entries-than-roots".into(), format!("active_collectors={} exceeds the {} roots created so far", st.active, created));
            }
        }
    }
}

// ---------------------------------------------------------------------------------------------
// C10 / C11 / C16

pub fn c10(a: &Analysis, v: &mut Verdict) {
    check_ctx_returns(a, v, "C10");
    no_spurious(a, v, "C10");
    check_attachments(a, v, "C10", "C10.attach", false, &|_| true);
    presence(a, v, "C10", "C10.parents", |_| true);
    let deep = a.model.recs.iter().filter(|r| r.local && matches!(r.parent, PRef::Node(_))).count();
    let probes = a.case.ops.iter().filter(|r| matches!(r.op, Op::CtxCurrent { .. })).count();
    v.probe("ctx_probes", probes as u64);
    v.trigger = deep >= 2 && probes >= 2;
}

pub fn c11(a: &Analysis, v: &mut Verdict) {
    check_ctx_returns(a, v, "C11");
    no_spurious(a, v, "C11");
    presence(a, v, "C11", "C11.remote-child", |r| {
        let col = &a.model.collects[r.collect];
        col.root_node == r.node && matches!(col.parent, PRef::Node(_))
    });
    let remote = a
        .model
        .collects
        .iter()
        .enumerate()
        .filter(|(_, c)| matches!(c.parent, PRef::Node(_)) && c.sampled)
        .filter(|(i, c)| a.model.recs.iter().enumerate().any(|(j, r)| r.collect == *i && r.node == c.root_node && !a.matched[j].is_empty()))
        .count();
    v.probe("remote_children_delivered", remote as u64);
    v.trigger = remote > 0;
}

pub fn c16(a: &Analysis, v: &mut Verdict) {
    let m = a.model;
    no_spurious(a, v, "C16");
    let mut nonrec = 0u64;
    for (op, (lo, hi)) in &m.closures {
        let o = outer(*op);
        if !a.op_executed(o) || a.hist.ops[o].panic.is_some() {
            continue;
        }
        let n = a.hist.closure_calls.get(op).copied().unwrap_or(0);
        if *hi == 0 {
            nonrec += 1;
        }
        if n < *lo || n > *hi {
            v.add(
                "C16",
                if *hi == 0 { "C16.lazy" } else { "C16.once" },
                format!("{}:{}", op_kind(a, o), if *hi == 0 { "invoked-on-non-recording" } else if n == 0 { "not-invoked" } else { "invoked-twice" }),
                format!("property closure of op {} was invoked {} times, expected {}..{}", a.describe_op(o), n, lo, hi),
            );
        }
    }
    // non-recording spans: elapsed/from_span None
    for (o, out) in a.hist.ops.iter().enumerate() {
        if !out.executed {
            continue;
        }
        if let (Ret::Elapsed(g), Some(ExpRet::Elapsed(e))) = (&out.ret, m.rets.get(&node_id(o, None))) {
            if g.is_some() != e.is_some() {
                v.add("C16", "C16.elapsed", "elapsed-presence".into(), format!("op {} returned {:?}", a.describe_op(o), g));
            }
        }
    }
    check_ctx_returns(a, v, "C16");
    v.probe("non_recording_closures", nonrec);
    v.trigger = nonrec > 0;
}

pub fn check_ctx_returns_pub(a: &Analysis, v: &mut Verdict, prop: &str) {
    check_ctx_returns(a, v, prop)
}
pub fn no_spurious_pub(a: &Analysis, v: &mut Verdict, prop: &str) {
    no_spurious(a, v, prop)
}
pub fn presence_pub(a: &Analysis, v: &mut Verdict, prop: &str, clause: &str) {
    presence(a, v, prop, clause, |_| true)
}
