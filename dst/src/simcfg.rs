//! Schedule / fault configuration of a case (no dependency on the library under test, so that the
//! enable-less C16 build can share the generator).

use serde::{Deserialize, Serialize};

pub const NO_DECISION: u16 = 0xFFFF;

pub fn mix(mut z: u64) -> u64 {
    z = z.wrapping_add(0x9E3779B97F4A7C15);
    z = (z ^ (z >> 30)).wrapping_mul(0xBF58476D1CE4E5B9);
    z = (z ^ (z >> 27)).wrapping_mul(0x94D049BB133111EB);
    z ^ (z >> 31)
}

#[derive(Clone, Copy, PartialEq, Eq, Debug, Serialize, Deserialize)]
pub enum Policy {
    /// uniform random among runnable threads, keep the running thread with `sticky` percent
    Random { sticky: u8 },
    /// PCT-style: random priorities, `depth` priority change points
    Pct { depth: u8 },
    /// weighted random: collector-role threads get weight `cw`, caller threads weight `tw`
    Weighted { cw: u8, tw: u8, sticky: u8 },
}

#[derive(Clone, Debug, Serialize, Deserialize)]
pub struct SchedCfg {
    pub seed: u64,
    pub policy: Policy,
    /// once a thread is inside handle_commands it is not pre-empted until the cycle ends
    pub atomic_cycles: bool,
    /// bit i set = library point kind i is a yield point
    pub yield_mask: u32,
    /// forced decisions (replay / minimised schedules); NO_DECISION = "stay or lowest id"
    pub explicit: Option<Vec<u16>>,
    pub clock_seed: u64,
    /// ring capacity knob (0 = the library default 10240)
    pub ring_cap: u32,
    pub max_steps: u64,
    /// collector stall: the k-th sleep of the background collector is extended by extra_ns
    pub stall: Option<(u32, u64)>,
    /// wall clock steps: at the end of cycle k the wall-clock offset changes by delta ns
    pub wall_steps: Vec<(u32, i64)>,
    /// slow reporter: the k-th report() call takes this many ns (the collector lock is held)
    #[serde(default)]
    pub report_stall: Option<(u32, u64)>,
    /// the reporter itself uses tracing inside report() (on the collector's thread)
    #[serde(default)]
    pub reporter_traces: bool,
    /// the id prefixes the threads draw are consecutive numbers instead of scattered ones
    #[serde(default)]
    pub adjacent_ids: bool,
}

impl SchedCfg {
    pub fn basic(seed: u64) -> SchedCfg {
        SchedCfg {
            seed,
            policy: Policy::Random { sticky: 50 },
            atomic_cycles: false,
            yield_mask: default_yield_mask(),
            explicit: None,
            clock_seed: seed ^ 0x5bd1e995,
            ring_cap: 0,
            max_steps: 40_000,
            stall: None,
            wall_steps: vec![],
            report_stall: None,
            reporter_traces: false,
            adjacent_ids: false,
        }
    }
}

pub fn default_yield_mask() -> u32 {
    (1 << 2) | (1 << 5) | (1 << 6) // P_PUSH, P_RECV_EMPTY, P_DRAIN_RX
}

