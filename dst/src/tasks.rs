//! Scripted futures / streams / sinks for the adapter properties (C13, C14): the body of every poll
//! is a list of harness operations supplied by the Poll operation that drives it.

use std::cell::UnsafeCell;
use std::future::Future;
use std::pin::Pin;
use std::sync::Arc;
use std::task::{Context, Poll, RawWaker, RawWakerVTable, Waker};

use fastrace::prelude::*;
use futures_core::Stream;
use futures_sink::Sink;

use crate::exec::{exec_op, Ret, ThreadCtx};
use crate::model::OpRef;
use crate::prog::*;
use crate::sim;

/// what the next call into the scripted object does
pub struct Script {
    ctx: *mut ThreadCtx,
    idx: usize,
    inner: Vec<Op>,
    ready: bool,
    item: bool,
    /// spans owned by the scripted future (held across awaits), dropped with it
    pub held: Vec<Span>,
}

pub struct ScriptCell(UnsafeCell<Script>);
unsafe impl Send for ScriptCell {}
unsafe impl Sync for ScriptCell {}

impl ScriptCell {
    fn new() -> Arc<ScriptCell> {
        Arc::new(ScriptCell(UnsafeCell::new(Script {
            ctx: std::ptr::null_mut(),
            idx: 0,
            inner: vec![],
            ready: false,
            item: false,
            held: vec![],
        })))
    }
    #[allow(clippy::mut_from_ref)]
    pub fn get(&self) -> &mut Script {
        unsafe { &mut *self.0.get() }
    }
}

fn run_body(cell: &ScriptCell) -> (bool, bool) {
    let s = cell.get();
    if s.ctx.is_null() {
        return (false, false);
    }
    let ctx = unsafe { &mut *s.ctx };
    let inner = std::mem::take(&mut s.inner);
    for (k, iop) in inner.iter().enumerate() {
        let r = node_id(s.idx, Some(k));
        sim::log_ev(sim::K_SUBOP_BEGIN, r as u64, 0);
        if matches!(iop, Op::BodyPanic) {
            sim::log_ev(sim::K_SUBOP_END, r as u64, 0);
            ctx.inner_rets.push((r, Ret::None));
            std::panic::resume_unwind(Box::new(ScriptPanic));
        }
        let ret = exec_op(ctx, s.idx, r, iop, &[]);
        sim::log_ev(sim::K_SUBOP_END, r as u64, 0);
        ctx.inner_rets.push((r, ret));
    }
    (s.ready, s.item)
}

macro_rules! drop_held {
    ($t:ident) => {
        impl Drop for $t {
            fn drop(&mut self) {
                // the future owns the spans it held across its suspension points
                let held = std::mem::take(&mut self.0.get().held);
                drop(held);
            }
        }
    };
}
drop_held!(ScriptedFuture);
drop_held!(ScriptedStream);
drop_held!(ScriptedSink);

/// the payload of a scripted body's panic
pub struct ScriptPanic;

/// a combinator that contains a panic of the future it wraps (like a task supervisor would)
pub struct CatchPanic(Pin<Box<dyn Future<Output = ()>>>);
impl Future for CatchPanic {
    type Output = ();
    fn poll(self: Pin<&mut Self>, cx: &mut Context<'_>) -> Poll<()> {
        let inner = &mut self.get_mut().0;
        match std::panic::catch_unwind(std::panic::AssertUnwindSafe(|| inner.as_mut().poll(cx))) {
            Ok(p) => p,
            Err(e) if e.is::<ScriptPanic>() => Poll::Pending,
            Err(e) => std::panic::resume_unwind(e),
        }
    }
}

pub struct ScriptedFuture(Arc<ScriptCell>);
impl Future for ScriptedFuture {
    type Output = ();
    fn poll(self: Pin<&mut Self>, _cx: &mut Context<'_>) -> Poll<()> {
        if run_body(&self.0).0 {
            Poll::Ready(())
        } else {
            Poll::Pending
        }
    }
}

pub struct ScriptedStream(Arc<ScriptCell>);
impl Stream for ScriptedStream {
    type Item = u32;
    fn poll_next(self: Pin<&mut Self>, _cx: &mut Context<'_>) -> Poll<Option<u32>> {
        let (ready, item) = run_body(&self.0);
        if ready {
            Poll::Ready(None)
        } else if item {
            Poll::Ready(Some(7))
        } else {
            Poll::Pending
        }
    }
}

pub struct ScriptedSink(Arc<ScriptCell>);
impl Sink<u32> for ScriptedSink {
    type Error = ();
    fn poll_ready(self: Pin<&mut Self>, _cx: &mut Context<'_>) -> Poll<Result<(), ()>> {
        if run_body(&self.0).0 {
            Poll::Ready(Ok(()))
        } else {
            Poll::Pending
        }
    }
    fn start_send(self: Pin<&mut Self>, _item: u32) -> Result<(), ()> {
        run_body(&self.0);
        Ok(())
    }
    fn poll_flush(self: Pin<&mut Self>, _cx: &mut Context<'_>) -> Poll<Result<(), ()>> {
        if run_body(&self.0).0 {
            Poll::Ready(Ok(()))
        } else {
            Poll::Pending
        }
    }
    fn poll_close(self: Pin<&mut Self>, _cx: &mut Context<'_>) -> Poll<Result<(), ()>> {
        let (ready, err) = run_body(&self.0);
        if ready && err {
            Poll::Ready(Err(()))
        } else if ready {
            Poll::Ready(Ok(()))
        } else {
            Poll::Pending
        }
    }
}

pub enum TaskObj {
    Fut(Pin<Box<dyn Future<Output = ()>>>),
    Stream(Pin<Box<fastrace_futures::InSpan<ScriptedStream>>>),
    Sink(Pin<Box<fastrace_futures::InSpan<ScriptedSink>>>),
}

pub struct TaskBox {
    cell: Arc<ScriptCell>,
    obj: Option<TaskObj>,
}

fn noop_raw_waker() -> RawWaker {
    fn no_op(_: *const ()) {}
    fn clone(_: *const ()) -> RawWaker {
        noop_raw_waker()
    }
    static VTABLE: RawWakerVTable = RawWakerVTable::new(clone, no_op, no_op, no_op);
    RawWaker::new(std::ptr::null(), &VTABLE)
}

pub fn noop_waker() -> Waker {
    unsafe { Waker::from_raw(noop_raw_waker()) }
}

pub fn new_task(case: &Case, op: OpRef, wrap: &Wrap, span: Option<Span>) -> TaskBox {
    let cell = ScriptCell::new();
    let name = span_name(case.str_seed, op);
    let obj = match wrap {
        Wrap::InSpan => TaskObj::Fut(Box::pin(ScriptedFuture(cell.clone()).in_span(span.unwrap_or_default()))),
        Wrap::EnterOnPoll => TaskObj::Fut(Box::pin(ScriptedFuture(cell.clone()).enter_on_poll(name))),
        Wrap::InSpanEnterOnPoll => TaskObj::Fut(Box::pin(
            ScriptedFuture(cell.clone()).enter_on_poll(name).in_span(span.unwrap_or_default()),
        )),
        Wrap::InSpanCatch => TaskObj::Fut(Box::pin(
            CatchPanic(Box::pin(ScriptedFuture(cell.clone()).enter_on_poll(name))).in_span(span.unwrap_or_default()),
        )),
        Wrap::Stream => {
            use fastrace_futures::StreamExt;
            TaskObj::Stream(Box::pin(ScriptedStream(cell.clone()).in_span(span.unwrap_or_default())))
        }
        Wrap::Sink => {
            use fastrace_futures::SinkExt;
            TaskObj::Sink(Box::pin(SinkExt::<u32>::in_span(ScriptedSink(cell.clone()), span.unwrap_or_default())))
        }
    };
    TaskBox { cell, obj: Some(obj) }
}

pub fn poll_task(tb: &mut TaskBox, ctx: &mut ThreadCtx, idx: usize, kind: PollKind, ready: bool, inner: &[Op]) -> Ret {
    {
        let s = tb.cell.get();
        s.ctx = ctx;
        s.idx = idx;
        s.inner = inner.to_vec();
        s.ready = ready;
        s.item = kind == PollKind::PollNextItem || kind == PollKind::PollCloseErr;
    }
    let outer_cell = ctx.cur_cell.take();
    ctx.cur_cell = Some(tb.cell.clone());
    let waker = noop_waker();
    let mut cx = Context::from_waker(&waker);
    let obj = tb.obj.as_mut();
    let polled = std::panic::catch_unwind(std::panic::AssertUnwindSafe(|| match (obj, kind) {
        (Some(TaskObj::Fut(f)), PollKind::Poll) => format!("{:?}", f.as_mut().poll(&mut cx)),
        (Some(TaskObj::Stream(s)), PollKind::PollNext) | (Some(TaskObj::Stream(s)), PollKind::PollNextItem) => {
            format!("{:?}", s.as_mut().poll_next(&mut cx))
        }
        (Some(TaskObj::Sink(s)), PollKind::PollReady) => format!("{:?}", s.as_mut().poll_ready(&mut cx)),
        (Some(TaskObj::Sink(s)), PollKind::StartSend) => format!("{:?}", s.as_mut().start_send(1)),
        (Some(TaskObj::Sink(s)), PollKind::PollFlush) => format!("{:?}", s.as_mut().poll_flush(&mut cx)),
        (Some(TaskObj::Sink(s)), PollKind::PollClose) | (Some(TaskObj::Sink(s)), PollKind::PollCloseErr) => {
            format!("{:?}", s.as_mut().poll_close(&mut cx))
        }
        _ => "mismatch".to_string(),
    }));
    let out = match polled {
        Ok(s) => s,
        // the caller of a poll whose body panicked catches the panic (and may poll again later)
        Err(e) if e.is::<ScriptPanic>() => "panicked".to_string(),
        Err(e) => std::panic::resume_unwind(e),
    };
    tb.cell.get().ctx = std::ptr::null_mut();
    ctx.cur_cell = outer_cell;
    Ret::Value(out)
}

pub fn drop_task(tb: &mut TaskBox) {
    tb.obj = None;
}

pub fn exec_async(ctx: &mut ThreadCtx, idx: usize, op: OpRef, o: &Op, inner: &[Op]) -> Ret {
    crate::exec::exec_async_impl(ctx, idx, op, o, inner)
}
