//! Scripted futures / streams / sinks and the #[trace] twin corpus (filled in later).

use crate::exec::{Ret, ThreadCtx};
use crate::model::OpRef;
use crate::prog::Op;

pub struct TaskBox;

pub fn exec_async(_ctx: &mut ThreadCtx, _idx: usize, _op: OpRef, _o: &Op, _inner: &[Op]) -> Ret {
    panic!("harness: async ops not supported yet")
}
