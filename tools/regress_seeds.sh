#!/bin/bash
# regress_seeds.sh [name-prefix]: applies every seeded change to /repo in turn, runs the quick check of
# its own property (plus the other checks named in meta.json's detected_by until one reports), and
# undoes it. Result lines go to seeded/regression.log. Never run while a `vp run` is active.
cd /verif
out=seeded/regression.log
: > $out
for d in seeded/${1:-}*/; do
  n=$(basename $d)
  [ -f $d/meta.json ] || continue
  prop=$(python3 -c "import json;print(json.load(open('$d/meta.json'))['property'])")
  if [ "$(python3 -c "import json;print(json.load(open('$d/meta.json'))['detected'])")" = "False" ]; then
    echo "$n: outside the envelope (recorded as not detected, DESIGN Appendix D limits)" | tee -a $out; continue
  fi
  others=$(python3 -c "
import json,re
m=json.load(open('$d/meta.json'))
ids=re.findall(r'C\d\d', m.get('detected_by') or '')
print(' '.join(dict.fromkeys([i for i in ids if i!='$prop'])))")
  (cd /repo && git status --short | grep -v '^??' | grep -q .) && { echo "repo dirty" | tee -a $out; exit 2; }
  git -C /repo apply /verif/$d/patch.diff || { echo "$n NOAPPLY" | tee -a $out; continue; }
  res="MISSED"
  for id in $prop $others; do
    ./run.sh $id quick > /tmp/regress.out 2>&1; rc=$?
    if [ $rc = 1 ] && grep -q "^VIOLATION" /tmp/regress.out; then res="detected by $id ($(grep -c '^VIOLATION' /tmp/regress.out) classes)"; break; fi
    if [ $rc = 2 ]; then res="HARNESS-ERROR in $id"; fi
  done
  git -C /repo checkout -- .
  echo "$n: $res" | tee -a $out
done
