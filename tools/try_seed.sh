#!/bin/bash
# try_seed.sh <patch.diff> <ID> [<ID>...] : applies a seeded change to /repo, runs the quick checks
# of the given properties, and undoes the change straight afterwards.
P="$1"; shift
cd /repo && git status --short | grep -v '^??' | grep . && { echo "repo dirty"; exit 2; }
git -C /repo apply "$P" || { echo "patch does not apply"; exit 2; }
for id in "$@"; do
  /verif/run.sh "$id" quick > /tmp/try_seed.out 2>&1; rc=$?
  grep -E "clause=" /tmp/try_seed.out | cut -c1-200 | head -4
  grep -E "quick:|HARNESS" /tmp/try_seed.out
  echo "exit[$id]=$rc"
done
git -C /repo checkout -- .
git -C /repo status --short | grep -v '^??'
