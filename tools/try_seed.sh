#!/bin/bash
# try_seed.sh <patch.diff> <ID> [<ID>...] : applies a seeded change to /repo, runs the quick checks
# of the given properties, and undoes the change straight afterwards.
P="$1"; shift
cd /repo && git status --short | grep -v '^??' | grep . && { echo "repo dirty"; exit 2; }
git -C /repo apply "$P" || { echo "patch does not apply"; exit 2; }
for id in "$@"; do
  /verif/run.sh "$id" quick 2>&1 | grep -E "^VIOLATION|^KNOWN|clause=|quick:|HARNESS" | cut -c1-220
  echo "exit[$id]=${PIPESTATUS[0]}"
done
git -C /repo checkout -- .
git -C /repo status --short | grep -v '^??'
