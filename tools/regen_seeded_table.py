#!/usr/bin/env python3
"""Regenerates the table of DESIGN.md Appendix D from seeded/*/meta.json."""
import json, os, re
root = "/verif"
rows = []
for name in sorted(os.listdir(f"{root}/seeded")):
    mp = f"{root}/seeded/{name}/meta.json"
    if not os.path.exists(mp):
        continue
    m = json.load(open(mp))
    by = m.get("detected_by") or "—"
    rows.append(f"| `{name}` | {m['property']} | {by} | {m.get('needs_to_manifest','')} |")
s = open(f"{root}/DESIGN.md").read()
head = "| change | property | detected by (quick) | needs, in order to manifest |\n|---|---|---|---|\n"
i = s.index(head) + len(head)
j = s.index("\n\nMissed at first, and what changed:")
s = s[:i] + "\n".join(rows) + s[j:]
open(f"{root}/DESIGN.md", "w").write(s)
print(len(rows), "rows")
