#!/usr/bin/env python3
"""adopt_seed.py <worktree> <K> <name> <property> <caught_by> <detected: yes|no> <needs...>
Copies a confirmed seeded change into /verif/seeded/<name>/ with meta.json."""
import sys, os, shutil, json
wt, k, name, prop, caught, detected = sys.argv[1:7]
needs = " ".join(sys.argv[7:])
src = f"{wt}/OUT/{k}"
dst = f"/verif/seeded/{name}"
os.makedirs(dst, exist_ok=True)
for f in ("patch.diff", "demo.rs", "notes.md", "confirm.log"):
    if os.path.exists(f"{src}/{f}"):
        shutil.copy(f"{src}/{f}", f"{dst}/{f}")
meta = {
  "property": prop,
  "breaks": open(f"{src}/notes.md").read().split("\n")[0:1][0] if os.path.exists(f"{src}/notes.md") else "",
  "needs_to_manifest": needs,
  "confirmed_by_me": "tools/confirm_seed.sh in the scratch worktree: demo passes without the change, existing suite (cargo test --workspace --offline) passes with it, demo fails with it (see confirm.log)",
  "checks_run": f"tools/try_seed.sh patch.diff {caught} (git -C /repo apply; ./run.sh <ID> quick; git -C /repo checkout -- .)",
  "detected": detected == "yes",
  "detected_by": caught if detected == "yes" else None,
}
json.dump(meta, open(f"{dst}/meta.json", "w"), indent=1)
print("adopted", dst)
