#!/bin/bash
# confirm_seed.sh <worktree> <K> : re-checks a seeded change in its scratch worktree:
#  demo passes without the change, existing suite passes with it, demo fails with it.
WT="$1"; K="$2"; OUT="$WT/OUT/$K"
export CARGO_NET_OFFLINE=true
cd "$WT" || exit 2
git checkout -q -- . 
demo=$(basename "$(ls fastrace/tests/seeded_demo_${K}*.rs 2>/dev/null | head -1)" .rs)
[ -z "$demo" ] && { echo "no demo test found"; exit 2; }
{
echo "== demo without change ($demo)"
cargo test -p fastrace@0.7.9 --features enable --offline --test "$demo" 2>&1 | grep -E "^test result|panicked|FAILED|error" | head -5
git apply "$OUT/patch.diff" || { echo "patch does not apply"; exit 2; }
echo "== existing suite with change"
cargo test --workspace --no-fail-fast --offline 2>&1 | grep -E "^test result|FAILED|failed" | sort | uniq -c
echo "== demo with change"
cargo test -p fastrace@0.7.9 --features enable --offline --test "$demo" 2>&1 | grep -E "^test result|panicked|FAILED|error" | head -5
git checkout -q -- .
git status --short | head -5
} > "$OUT/confirm.log" 2>&1
cat "$OUT/confirm.log"
