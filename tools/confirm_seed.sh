#!/bin/bash
# confirm_seed.sh <worktree> <K> : re-checks a seeded change in its scratch worktree:
#  demo passes without the change, existing suite passes with it, demo fails with it.
WT="$1"; K="$2"; OUT="$WT/OUT/$K"
export CARGO_NET_OFFLINE=true
cd "$WT" || exit 2
git checkout -q -- . 
demo=""; DEMOCMD=""
for d in fastrace fastrace-futures test-statically-disable; do
  f=$(ls $d/tests/seeded_demo_${K}*.rs 2>/dev/null | head -1)
  if [ -n "$f" ]; then
    demo=$(basename "$f" .rs)
    case $d in
      fastrace) DEMOCMD="cargo test -p fastrace@0.7.9 --features enable --offline --test $demo";;
      fastrace-futures) DEMOCMD="cargo test -p fastrace-futures --features fastrace/enable --offline --test $demo";;
      test-statically-disable) DEMOCMD="cargo test -p test-statically-disable --offline --test $demo";;
    esac
    break
  fi
done
[ -z "$demo" ] && { echo "no demo test found"; exit 2; }
{
echo "== demo without change ($demo)"
$DEMOCMD 2>&1 | grep -E "^test result|panicked|FAILED|error" | head -5
git apply "$OUT/patch.diff" || { echo "patch does not apply"; exit 2; }
echo "== existing suite with change"
cargo test --workspace --no-fail-fast --offline 2>&1 | grep -E "^test result|FAILED|failed" | sort | uniq -c
echo "== demo with change"
$DEMOCMD 2>&1 | grep -E "^test result|panicked|FAILED|error" | head -5
git checkout -q -- .
git status --short | head -5
} > "$OUT/confirm.log" 2>&1
cat "$OUT/confirm.log"
