#!/usr/bin/env python3
"""Seam audit: every place where fastrace reads a clock, sleeps, spawns a thread or draws a random
number must go through the simulator's shims (DESIGN 2.2). A *new* reference to one of those sources
(a line that is not in seam-baseline.txt) escapes the simulator: runs stay repeatable only by luck and
behaviour that depends on it (a real-time timeout, say) is invisible to every check. This is reported
as a warning (stderr and evidence), never as a violation."""
import json, os, re, sys
verif = os.path.dirname(os.path.dirname(os.path.abspath(__file__)))
pat = re.compile(r"\bfastant::|std::time::(Instant|SystemTime)|SystemTime::|\bthread::(sleep|spawn|Builder|park|yield_now)|\brand::|Instant::now\(\)|Anchor::new\(\)")
roots = ["/repo/fastrace/src", "/repo/fastrace-futures/src"]
found = []
for root in roots:
    for dp, _, fs in os.walk(root):
        for f in sorted(fs):
            if not f.endswith(".rs") or (dp.endswith("fastrace/src") and f == "verif.rs"):
                continue
            p = os.path.join(dp, f)
            for ln in open(p, errors="replace"):
                t = ln.strip()
                if t.startswith("//") or not pat.search(t):
                    continue
                found.append(f"{os.path.relpath(p, '/repo')}: {t}")
base_path = os.path.join(verif, "seam-baseline.txt")
if len(sys.argv) > 1 and sys.argv[1] == "--write-baseline":
    open(base_path, "w").write("\n".join(sorted(set(found))) + "\n")
    print(len(set(found)), "baseline lines")
    sys.exit(0)
base = set(open(base_path).read().splitlines()) if os.path.exists(base_path) else set()
new = sorted(set(found) - base)
out = {"references": len(found), "new_since_baseline": new}
os.makedirs(os.path.join(verif, "target"), exist_ok=True)
json.dump(out, open(os.path.join(verif, "target", "seam-audit.json"), "w"))
for n in new:
    print(f"SEAM-AUDIT WARNING: a time/thread/random source outside the simulator's seams: {n}", file=sys.stderr)
