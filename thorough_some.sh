#!/bin/bash
cd "$(dirname "$0")"
for p in "$@"; do ./run.sh $p thorough 2>&1 | grep -E "VIOLATION|clause=|thorough:|HARNESS"; done
