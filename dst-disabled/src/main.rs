//! C16 (a): fastrace built WITHOUT the `enable` feature. The same generated programs (C16 and
//! C07 profiles of the shared generator) run on real OS threads in script order; there is nothing
//! to schedule in this build (no hooks exist, every call must be inert).
//!
//! Checked: the reporter is never called, set_reporter/flush create no thread, from_span /
//! current_local_parent / elapsed are None, to_span_records is empty, no property closure runs.
#![allow(dead_code)]

#[path = "../../dst/src/simcfg.rs"]
mod simcfg;
mod sim {
    pub use crate::simcfg::*;
}
mod corpus {
    pub const NTWINS: u8 = 23;
}
#[path = "../../dst/src/prog.rs"]
mod prog;
#[path = "../../dst/src/model.rs"]
mod model;
#[path = "../../dst/src/gen.rs"]
mod gen;

use std::any::Any;
use std::sync::atomic::{AtomicU64, Ordering::SeqCst};
use std::sync::{Arc, Condvar, Mutex};
use std::time::Duration;

use fastrace::collector::{Config, Reporter, SpanRecord};
use fastrace::local::{LocalCollector, LocalSpans};
use fastrace::prelude::*;

use prog::*;

static REPORT_CALLS: AtomicU64 = AtomicU64::new(0);
static CLOSURE_CALLS: AtomicU64 = AtomicU64::new(0);

struct Rep;
impl Reporter for Rep {
    fn report(&mut self, _spans: Vec<SpanRecord>) {
        REPORT_CALLS.fetch_add(1, SeqCst);
    }
}

enum SlotV {
    Empty,
    Span(Span),
    Set(LocalSpans),
    Ctx(Option<SpanContext>),
}

enum LocalH {
    Guard(Box<dyn Any>),
    LSpan(LocalSpan),
    Coll(LocalCollector),
}

struct Shared {
    case: Case,
    slots: Mutex<Vec<SlotV>>,
    next: Mutex<usize>,
    cv: Condvar,
    problems: Mutex<Vec<String>>,
    calls: AtomicU64,
}

/// number of threads this process has ever created: `pthread_create` is interposed (the symbol
/// defined here shadows libc's for the whole executable) and forwards to the real one. A live
/// thread count would miss a helper thread that is spawned and joined inside one call, and races
/// with earlier threads still being reaped.
static THREAD_CREATES: AtomicU64 = AtomicU64::new(0);

type PthreadCreate = unsafe extern "C" fn(
    *mut libc::pthread_t,
    *const libc::pthread_attr_t,
    extern "C" fn(*mut libc::c_void) -> *mut libc::c_void,
    *mut libc::c_void,
) -> libc::c_int;

#[no_mangle]
pub unsafe extern "C" fn pthread_create(
    native: *mut libc::pthread_t,
    attr: *const libc::pthread_attr_t,
    f: extern "C" fn(*mut libc::c_void) -> *mut libc::c_void,
    value: *mut libc::c_void,
) -> libc::c_int {
    THREAD_CREATES.fetch_add(1, SeqCst);
    let real = libc::dlsym(libc::RTLD_NEXT, b"pthread_create\0".as_ptr() as *const libc::c_char);
    let real: PthreadCreate = std::mem::transmute(real);
    real(native, attr, f, value)
}

fn os_threads() -> u64 {
    THREAD_CREATES.load(SeqCst)
}

fn props(n: u8) -> Vec<(String, String)> {
    CLOSURE_CALLS.fetch_add(1, SeqCst);
    (0..n).map(|j| (format!("k{j}"), format!("v{j}"))).collect()
}

fn exec(sh: &Shared, stack: &mut Vec<LocalH>, i: usize, op: &Op) {
    let mut slots = sh.slots.lock().unwrap();
    let problem = |m: String| sh.problems.lock().unwrap().push(format!("op #{i} {op:?}: {m}"));
    sh.calls.fetch_add(1, SeqCst);
    macro_rules! span {
        ($s:expr) => {
            match &slots[*$s as usize] {
                SlotV::Span(sp) => sp,
                _ => return,
            }
        };
    }
    match op {
        Op::SetReporter { cancelable, interval_ns } => {
            let before = os_threads();
            fastrace::set_reporter(Rep, Config::default().cancelable(*cancelable).report_interval(Duration::from_nanos(*interval_ns)));
            let after = os_threads();
            if after != before {
                problem(format!("set_reporter created {} thread(s)", after - before));
            }
        }
        Op::Flush => {
            let before = os_threads();
            fastrace::flush();
            let after = os_threads();
            if after != before {
                problem(format!("flush created {} thread(s)", after - before));
            }
        }
        Op::Root { slot, trace, props: n } => {
            let spec = &sh.case.traces[*trace as usize];
            let mut sp = Span::root("r", SpanContext::new(TraceId(spec.trace_id), SpanId(spec.parent_span)).sampled(spec.sampled));
            if *n > 0 {
                sp = sp.with_properties(|| props(*n));
            }
            slots[*slot as usize] = SlotV::Span(sp);
        }
        Op::RootFromCtx { slot, ctx, props: n, .. } => {
            let c = match &slots[*ctx as usize] {
                SlotV::Ctx(c) => *c,
                _ => None,
            };
            let mut sp = match c {
                Some(c) => Span::root("r", c),
                None => Span::noop(),
            };
            if *n > 0 {
                sp = sp.with_properties(|| props(*n));
            }
            slots[*slot as usize] = SlotV::Span(sp);
        }
        Op::Noop { slot } => slots[*slot as usize] = SlotV::Span(Span::noop()),
        Op::Child { slot, parents, multi, props: n } => {
            let mut sp = {
                let ps: Vec<&Span> = parents
                    .iter()
                    .filter_map(|p| match &slots[*p as usize] {
                        SlotV::Span(s) => Some(s),
                        _ => None,
                    })
                    .collect();
                if !*multi && ps.len() == 1 {
                    Span::enter_with_parent("c", ps[0])
                } else {
                    Span::enter_with_parents("c", ps)
                }
            };
            if *n > 0 {
                sp = sp.with_properties(|| props(*n));
            }
            slots[*slot as usize] = SlotV::Span(sp);
        }
        Op::ChildLocal { slot, props: n } => {
            let mut sp = Span::enter_with_local_parent("cl");
            if *n > 0 {
                sp = sp.with_properties(|| props(*n));
            }
            slots[*slot as usize] = SlotV::Span(sp);
        }
        Op::AddProps { slot, n } => span!(slot).add_properties(|| props(*n)),
        Op::AddEvent { slot, n } if *n > 0 && i % 3 == 0 => {
            #[allow(deprecated)]
            Event::add_to_parent("e", span!(slot), || props(*n).into_iter().map(|(k, v)| (k.into(), v.into())).collect::<Vec<(std::borrow::Cow<'static, str>, std::borrow::Cow<'static, str>)>>());
        }
        Op::LocalAddEvent { n } if *n > 0 && i % 3 == 0 => {
            #[allow(deprecated)]
            Event::add_to_local_parent("le", || props(*n).into_iter().map(|(k, v)| (k.into(), v.into())).collect::<Vec<(std::borrow::Cow<'static, str>, std::borrow::Cow<'static, str>)>>());
        }
        Op::EventNew { n, .. } => {
            let mut ev = Event::new("prepared");
            if *n > 0 {
                ev = ev.with_properties(|| props(*n));
            }
            LocalSpan::add_event(ev);
        }
        Op::AddEvent { slot, n } => {
            let mut ev = Event::new("e");
            if *n > 0 {
                ev = ev.with_properties(|| props(*n));
            }
            span!(slot).add_event(ev);
        }
        Op::Finish { slot, .. } => slots[*slot as usize] = SlotV::Empty,
        Op::Cancel { slot } => span!(slot).cancel(),
        Op::Elapsed { slot } => {
            if let Some(d) = span!(slot).elapsed() {
                problem(format!("elapsed() returned {d:?}"));
            }
        }
        Op::CtxSpan { slot, ctx } => {
            let c = SpanContext::from_span(span!(slot));
            if c.is_some() {
                problem("from_span returned a context".into());
            }
            slots[*ctx as usize] = SlotV::Ctx(c);
        }
        Op::CtxCurrent { ctx } => {
            let c = SpanContext::current_local_parent();
            if c.is_some() {
                problem("current_local_parent returned a context".into());
            }
            slots[*ctx as usize] = SlotV::Ctx(c);
        }
        Op::SetLocalParent { slot } => {
            let g = span!(slot).set_local_parent();
            stack.push(LocalH::Guard(Box::new(g)));
        }
        Op::StartCollector => stack.push(LocalH::Coll(LocalCollector::start())),
        Op::LocalEnter { props: n } => {
            let mut ls = LocalSpan::enter_with_local_parent("l");
            if *n > 0 {
                ls = ls.with_properties(|| props(*n));
            }
            stack.push(LocalH::LSpan(ls));
        }
        Op::LocalWithProps { n } => {
            if let Some(LocalH::LSpan(ls)) = stack.pop() {
                stack.push(LocalH::LSpan(ls.with_properties(|| props(*n))));
            }
        }
        Op::LocalAddProps { n } => LocalSpan::add_properties(|| props(*n)),
        Op::LocalAddEvent { n } => {
            let mut ev = Event::new("le");
            if *n > 0 {
                ev = ev.with_properties(|| props(*n));
            }
            LocalSpan::add_event(ev);
        }
        Op::Pop { into } | Op::Collect { into } => match stack.pop() {
            Some(LocalH::Coll(c)) => {
                if let Some(s) = into {
                    slots[*s as usize] = SlotV::Set(c.collect());
                }
            }
            Some(h) => drop(h),
            None => {}
        },
        Op::Push { slot, set } => {
            let ls = match &slots[*set as usize] {
                SlotV::Set(s) => s.clone(),
                _ => return,
            };
            span!(slot).push_child_spans(ls);
        }
        Op::ToRecords { set, trace } => {
            if let SlotV::Set(s) = &slots[*set as usize] {
                let spec = &sh.case.traces[*trace as usize];
                let r = s.to_span_records(SpanContext::new(TraceId(spec.trace_id), SpanId(spec.parent_span)));
                if !r.is_empty() {
                    problem(format!("to_span_records returned {} records", r.len()));
                }
            }
        }
        Op::UnwindScope { slot, .. } => {
            let sp = span!(slot);
            let _g = sp.set_local_parent();
            let _l = LocalSpan::enter_with_local_parent("u");
        }
        Op::ThreadEnd => {
            while let Some(h) = stack.pop() {
                drop(h);
            }
        }
        // scheduling helpers, bursts, async adapters and twins are exercised by the enabled build
        _ => {}
    }
}

fn max_slot(case: &Case) -> usize {
    // slots are small integers handed out in order by the generator
    let s = serde_json::to_string(&case.ops).unwrap();
    let mut m = 0usize;
    for key in ["\"slot\":", "\"ctx\":", "\"set\":", "\"into\":", "\"task\":"] {
        for part in s.split(key).skip(1) {
            let d: String = part.chars().take_while(|c| c.is_ascii_digit()).collect();
            if let Ok(x) = d.parse::<usize>() {
                m = m.max(x + 1);
            }
        }
    }
    // parents lists
    for part in s.split("\"parents\":[").skip(1) {
        for d in part.split(']').next().unwrap_or("").split(',') {
            if let Ok(x) = d.trim().parse::<usize>() {
                m = m.max(x + 1);
            }
        }
    }
    m + 1
}

fn run_case(case: &Case) -> Vec<String> {
    let n = max_slot(case);
    let sh = Arc::new(Shared {
        case: case.clone(),
        slots: Mutex::new((0..n).map(|_| SlotV::Empty).collect()),
        next: Mutex::new(0),
        cv: Condvar::new(),
        problems: Mutex::new(vec![]),
        calls: AtomicU64::new(0),
    });
    let reports_before = REPORT_CALLS.load(SeqCst);
    let closures_before = CLOSURE_CALLS.load(SeqCst);
    let nthreads = case.threads as usize;
    let mut handles = vec![];
    for t in 1..nthreads {
        let sh = sh.clone();
        handles.push(std::thread::spawn(move || worker(sh, t as u8)));
    }
    let creates_before = os_threads();
    worker(sh.clone(), 0);
    for h in handles {
        let _ = h.join();
    }
    let mut problems = sh.problems.lock().unwrap().clone();
    if os_threads() != creates_before {
        problems.push(format!("{} thread(s) were created while the program ran", os_threads() - creates_before));
    }
    if REPORT_CALLS.load(SeqCst) != reports_before {
        problems.push("the reporter was called".into());
    }
    if CLOSURE_CALLS.load(SeqCst) != closures_before {
        problems.push(format!("{} property closure(s) were invoked", CLOSURE_CALLS.load(SeqCst) - closures_before));
    }
    problems
}

/// every program thread is a real OS thread; operations run in script order (a baton is passed)
fn worker(sh: Arc<Shared>, t: u8) {
    let mut stack: Vec<LocalH> = vec![];
    let n = sh.case.ops.len();
    loop {
        let i = {
            let mut g = sh.next.lock().unwrap();
            loop {
                if *g >= n {
                    return;
                }
                if sh.case.ops[*g].t == t {
                    break *g;
                }
                g = sh.cv.wait(g).unwrap();
            }
        };
        let r = std::panic::catch_unwind(std::panic::AssertUnwindSafe(|| exec(&sh, &mut stack, i, &sh.case.ops[i].op)));
        if r.is_err() {
            sh.problems.lock().unwrap().push(format!("op #{i} {:?} panicked", sh.case.ops[i].op));
        }
        let mut g = sh.next.lock().unwrap();
        *g += 1;
        sh.cv.notify_all();
    }
}

fn main() {
    let args: Vec<String> = std::env::args().collect();
    let count: u64 = args.get(1).and_then(|s| s.parse().ok()).unwrap_or(2000);
    let base: u64 = args.get(2).and_then(|s| s.parse().ok()).unwrap_or(0);
    let out = args.get(3).cloned().unwrap_or_else(|| "/verif/target-disabled/c16-disabled.json".into());
    std::panic::set_hook(Box::new(|_| {}));
    let t0 = std::time::Instant::now();
    let mut violations: Vec<serde_json::Value> = vec![];
    let mut ops = 0u64;
    let mut sample = None;
    for i in 0..count {
        let prop = if i % 2 == 0 { "C16" } else { "C07" };
        let case = gen::generate(prop, base + i);
        ops += case.ops.len() as u64;
        let problems = run_case(&case);
        if sample.is_none() {
            sample = Some(serde_json::json!({"seed": case.seed, "ops": case.ops.iter().take(25).map(|o| format!("t{} {:?}", o.t, o.op)).collect::<Vec<_>>()}));
        }
        if !problems.is_empty() && violations.len() < 3 {
            let vd = std::env::var("VERIF_DIR").unwrap_or_else(|_| "/verif".into());
            let path = format!("{}/replays/C16-disabled-{}.json", vd, case.seed);
            std::fs::create_dir_all(format!("{}/replays", vd)).ok();
            std::fs::write(&path, serde_json::to_string_pretty(&serde_json::json!({"build": "fastrace without `enable`", "problems": problems, "case": case})).unwrap()).ok();
            violations.push(serde_json::json!({"seed": case.seed, "problems": problems, "replay": path}));
        }
    }
    let res = serde_json::json!({
        "programs": count,
        "operations": ops,
        "report_calls": REPORT_CALLS.load(SeqCst),
        "closure_calls": CLOSURE_CALLS.load(SeqCst),
        "threads_ever_created_by_the_process": os_threads(),
        "violations": violations,
        "sample": sample,
        "wall_s": t0.elapsed().as_secs_f64(),
    });
    std::fs::write(&out, serde_json::to_string_pretty(&res).unwrap()).expect("write result");
    for v in res["violations"].as_array().unwrap() {
        println!("VIOLATION property=C16 replay={}", v["replay"].as_str().unwrap());
        println!("  clause=C16.disabled sig=not-inert :: {}", v["problems"]);
    }
    println!("C16 disabled build: {} programs, {} operations, report calls {}, closure calls {}", count, ops, REPORT_CALLS.load(SeqCst), CLOSURE_CALLS.load(SeqCst));
    std::process::exit(if violations.is_empty() { 0 } else { 1 });
}
