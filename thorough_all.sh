#!/bin/bash
# runs the thorough tier of every claimed property one after another (used with `vp run`)
cd "$(dirname "$0")"
for p in C01 C02 C03 C04 C05 C06 C07 C08 C09 C10 C11 C13 C14 C15 C16 C17 C18; do
  ./run.sh $p thorough 2>&1 | grep -E "VIOLATION|clause=|thorough:|HARNESS"
done
