#!/usr/bin/env python3
"""Regenerates MANIFEST.json from the table below (run after adding/removing a claimed check)."""
import json, subprocess

CLAIMED = {
 "C01": ("7 C01", "Seeded search over generated multi-thread programs (roots, children, multi-parent spans, local scopes, hand-off between threads, thread exit right after a finish) in the default configuration, every interleaving of ring pushes, thread exits and the steps of collector cycles/flush() chosen by the simulator; oracle: exactly-once matching against the reference model, delivery by every flush() that happens-after the finish, delivery within 2 report intervals of quiet simulated time.",
         "rtrb/parking_lot internals trusted (serialised execution, no weak-memory effects); clock and id stubs; the reference model is the specification; permitted omissions are taken from the hook log (ring full) exactly as C09 allows."),
 "C02": ("7 C02", "Seeded search over generated well-scoped programs (deep local nesting, nested local-parent scopes, 1..n parents across and within traces, finish in any order on any thread), collector cycles placed atomically at every queue operation and pre-emptively; oracle: every delivered record matches one expected (trace id, span, parent) of the reference model, ids non-zero and pairwise distinct, multi-parent spans delivered once per parent.",
         "as C01; parent ids are learned from delivered records and extracted contexts, never predicted."),
 "C03": ("7 C03", "Seeded search in cancelable mode over programs whose spans finish on arbitrary warmed threads before the root (ordered by real hand-off happens-before) under all scheduling policies including pre-emption inside the drain; oracle per trace: nothing reported before the root's finish was invoked, exactly one report call holds the root, every span that finished before the root is in that same call, nothing afterwards. Violations explained by a cross-ring cut inversion (exactly computed from the consumption log) are the known finding D2; anything else fails the check.",
         "as C01; record-to-trace attribution through the reference model; losses to a full ring exempt exactly as logged."),
 "C04": ("7 C04", "Seeded search over programs that cancel roots at arbitrary points from any thread, with tiny rings (cancel/commit parked), both configurations, 35% atomic cycles; oracle: a cancelled trace never appears in any report call; every other trace (and every trace in the default configuration) is delivered completely, including attachments (differential against the same script without the cancel, via the reference model).",
         "as C01; a cancel lost because its thread exited while the ring was still full is exempt (C09 keeps signals only while the thread lives)."),
 "C05": ("7 C05", "Seeded search over programs mixing sampled and unsampled roots with descendants through every propagation path; oracle: no record ever matches an unsampled trace, every record matches a sampled expectation, contexts extracted anywhere carry the model's trace id and sampled flag, mixed-parent spans are delivered in their sampled parents' traces.",
         "as C01."),
 "C06": ("7 C06", "Seeded search over programs attaching properties/events through every route with arbitrary UTF-8 strings (incl. 64 KiB), 75% atomic cycles placed between attachment and finish, both configurations; oracle: safety on every delivered record under all schedules (attributable, unaltered, not duplicated, per-route per-thread order) and, under atomic cycles and the property's proviso, presence exactly once on every copy. Multi-parent-same-trace targets are the known finding D8.",
         "as C01; presence is only demanded under atomic cycles (the property's stated quantifier), see DESIGN §4 rule 2."),
 "C08": ("7 C08", "Seeded search over long histories of trace starts/finishes/cancels and thread births/exits in both configurations with pre-emptive drains; oracle at every quiescent cut (all roots finished or cancelled, two flushes): active collectors, buffered sets and parked attachments are 0 and the receiver count lies between the live registered threads bounds. Leaks explained by a cross-ring cut inversion are the known finding D2.",
         "as C01; collector state is read through the cfg-gated collector_stats() hook."),
 "C10": ("7 C10", "Seeded search over well-nested scope sequences to depth 12 on up to 3 threads with current_local_parent() probed throughout; oracle: every probe equals the reference model's answer (per-thread state only), parents of subsequently created spans and targets of local attachments equal the model's through the delivered records, local operations without a scope leave no record.",
         "as C01; this property has no fault dimension, simulation contributes the program quantifier and the cross-thread frame condition under interleaving."),
 "C11": ("7 C11", "Seeded search over programs extracting contexts at arbitrary points (any nesting, multi-parent, no-op, unsampled) and creating remote children from them directly or through a traceparent round trip on any thread; oracle: returned contexts equal the model's (trace id, identified span, sampled) or None, and the remote child is delivered in that trace under that span.",
         "as C01."),
 "C16": ("7 C16", "Seeded search with the enable feature on over non-recording handles (roots before a reporter exists, spans derived from no-op spans, local operations without a local parent) given counting property closures; oracle: closure invocation counts equal the model's (0 for non-recording, exactly 1 for recording), no record for non-recording handles, elapsed/from_span/current_local_parent None for them. The enable-less build is checked separately (see DESIGN).",
         "as C01; for unsampled recording handles 0 or 1 invocation is accepted (the property does not speak about them)."),
 "C13": ("7 C13", "Seeded search over scripted futures (each poll runs generated recording operations, then returns Pending or Ready) wrapped with in_span(span) (span a root or a child), enter_on_poll(name) or both, polled by generated threads (migration), dropped before completion or kept alive after it, both configurations, collector cycles placed atomically at every queue operation (incl. between the commit and the guard drop of the completing poll) and pre-emptively; oracle: every context probe inside and between polls equals the model, the span's duration ends inside the completing poll or the drop, everything the last poll recorded is in the trace (cancelable: in the root's report call; attachments present under atomic cycles), enter_on_poll yields one span per poll that covers what the poll recorded.",
         "as C01; the async executor is the harness (no-op waker, generated Poll operations); per-poll span instances of enter_on_poll share one name, so parent checks against an undelivered instance are skipped."),
 "C14": ("7 C14", "Same engine and oracle as C13 with scripted Stream and Sink objects wrapped by fastrace-futures' in_span: local parent during every poll_next/poll_ready/start_send/poll_flush/poll_close and restored afterwards, span finished exactly at Ready(None) / completed poll_close / drop, the last call's recordings part of the delivered trace.",
         "as C13."),
 "C17": ("7 C17", "Seeded search over detached local-span forests (events, properties, spans left open at collection) pushed to 1..5 parents in different traces, threads and cycles, with wall-clock steps between cycles, and converted with to_span_records; oracle: all delivered copies of a set are equal after erasing the top-level parent and making times relative (ids, names, properties, events, durations), to_span_records equals what a push delivers, spans open at collection end exactly at the collection instant. Two copies inside one trace are the known finding D8.",
         "as C01; absolute times are compared up to the clock anchor of the conversion, as the property states."),
 "C18": ("7 C18", "Seeded search with large Advance gaps, atomic cycles anywhere (each with its own anchor) and wall-clock steps between cycles; oracle from the simulated clock's read log: every record's duration equals a clock read of its finish operation minus a clock read of its start operation, begin times lie in the run's wall-clock window, local spans nest inside their enclosing local span, siblings do not overlap, event timestamps lie inside their local span, Span::elapsed() equals now minus start and is None for non-recording spans.",
         "fastant (TSC calibration) is replaced by the simulated clock: the property is about which instants fastrace stamps and how it converts them, and that code is real."),
 "C07": ("7 C07", "Seeded search over call sequences from the whole public surface in every state the property lists: no reporter / reporter installed late, no-op and unsampled spans, empty and all-no-op parent sets (incl. set as local parent and queried), property closures that themselves issue tracing calls (re-entrancy), tiny rings, exceeded scope (10240) and stack (4096) limits, panics unwinding through scopes, calls from thread-local destructors registered before and after fastrace's own thread-locals, threads exiting with open handles, collector stalls; oracle: every call returns without unwinding (catch_unwind per operation and inside destructors; process aborts attributed by the driver), no simulator deadlock or step-cap livelock, no call other than flush() waits on a lock or thread of the collector side (first-call registration hand-over exempt), flush() returns.",
         "guards/local spans are released LIFO on their own thread (the property's only precondition); release build (debug assertions off)."),
 "C09": ("7 C09", "Seeded search with ring capacities 2..16, collector stalls, bursts of spans/roots/cancels/finishes during the episode, threads exiting with a full ring, scopes with 10240+k local spans and 4096+k nested scopes; oracle: calls never wait or panic, delivered is a subset of recorded (right trace/parent, no duplicate) and recorded minus the logged omissions is delivered, present attachments are on the right span, white-box signal monitor over the consumption log (finish/cancel commands of a thread are consumed in issue order and none disappears while the thread lives), cancel still suppresses the trace, traces started after the episode are complete, limit overflows keep exactly the recorded part.",
         "ring-full events are taken from the hook log (exact: single producer); the capacity knob is the cfg-gated spsc shim."),
 "C15": ("7 C15", "Differential check on a fixed corpus of 20 twin pairs (plain / #[trace]) compiled against /repo/fastrace-macro on every run: sync, async, generic, lifetimes, impl methods, async-trait impl methods; returning values, early return, ?, panics, by-value/by-ref/mut arguments; name / short_name / enter_on_poll / properties with format strings and escaped braces; nested traced calls. Seeded per run: arguments, local parent (none / no-op / unsampled / multi-parent), poll schedule incl. drop before completion, collector placement and thread interleaving. Oracle: equal return values, side-effect logs (incl. drop order of body locals) and panic payloads; exactly one span per call (one per poll for enter_on_poll) with the configured name / identifier / func_path as the body reports it, properties equal to format! applied by the harness, parent = the caller's local parent in every sampled trace of it; nothing recorded without a local parent.",
         "the macro runs at compile time, so 'all signatures and bodies' is sampled by the fixed corpus only: the claim is 'holds on the corpus under all explored arguments and schedules', weaker than the property's program quantifier (DESIGN §7 C15)."),
}
NOT_APPLICABLE = {
 "C12": "Pure function of one string / one SpanContext: no thread, clock, I/O, fault or interleaving for a simulator to control; input generation alone would be property-based testing, a different technique family (DESIGN §8).",
 "C19": "Pure conversion of a given record batch to Thrift/msgpack/SpanData; quantifier over inputs only; the reporters have no transport seam and no stated fault behaviour (DESIGN §8).",
 "C20": "The datagram splitter is a deterministic function of the batch; termination and packet bounds are input properties with no schedule, clock or fault dimension (DESIGN §8).",
}
PENDING = "check under construction in this session; not claimed until its oracle exists and is validated (see DESIGN §7)"

props = [json.loads(l)["id"] for l in open("/verif/properties.jsonl")]
hook_commits = subprocess.run(["git","-C","/repo","log","--format=%H %s"],capture_output=True,text=True).stdout.splitlines()
hook_commits = [l.split()[0] for l in hook_commits if l.split(" ",1)[1].startswith("verif:")]

checks = []
for pid in props:
    if pid in CLAIMED:
        ref, text, note = CLAIMED[pid]
        checks.append({
            "property_id": pid,
            "quick_cmd": f"./run.sh {pid} quick",
            "thorough_cmd": f"./run.sh {pid} thorough",
            "evidence_file": f"/verif/evidence/{pid}.json",
            "replay_cmd_template": "./run.sh replay {path}",
            "engine": "dst",
            "level_claimed": {"category": "exploration", "text": text, "design_ref": f"DESIGN.md §{ref}"},
            "level_note": note,
            "technique": "deterministic simulation with fault injection: seeded scheduler over real OS threads (one runs at a time), simulated clock, injected faults (ring capacity, thread exit, collector stall, slow/late/replaced reporter, wall-clock steps, caught panics in user code and through scopes, limit overflows; 15 % swarm runs mix the fault kinds of all profiles), reference-model oracle over the recorded history, every fourth worker process runs the library with its own debug assertions compiled in, minimised replay files",
        })
na = []
for pid in props:
    if pid in CLAIMED: continue
    na.append({"property_id": pid, "reason": NOT_APPLICABLE.get(pid, PENDING)})

m = {
 "version": 1,
 "setup_cmd": "cd /verif/dst && CARGO_NET_OFFLINE=true CARGO_TARGET_DIR=/verif/target cargo build --release --offline && CARGO_NET_OFFLINE=true CARGO_TARGET_DIR=/verif/target-checked cargo build --release --offline --config 'profile.release.package.fastrace.debug-assertions=true' --config 'profile.release.package.fastrace.overflow-checks=true' --config 'profile.release.package.fastrace-futures.debug-assertions=true' --config 'profile.release.package.fastrace-futures.overflow-checks=true' && cd /verif/dst-disabled && CARGO_NET_OFFLINE=true CARGO_TARGET_DIR=/verif/target-disabled cargo build --release --offline",
 "hooks": {
   "guard": "fastrace_verif",
   "enable": "RUSTFLAGS=\"--cfg fastrace_verif\" (set in /verif/dst/.cargo/config.toml; the harness crate has path dependencies on /repo/fastrace and /repo/fastrace-futures)",
   "baseline_off_cmd": "cd /repo && cargo test --workspace --no-fail-fast --offline",
   "source_commits": hook_commits,
   "add_only": True,
 },
 "engines": [{"name": "dst", "path": "/verif/dst", "serves_properties": sorted(CLAIMED), "kind_free_text": "deterministic simulator (own scheduler on real OS threads, simulated time, fault injection), program generator, reference model, oracles, minimiser, multi-process driver"}],
 "checks": checks,
 "not_applicable": na,
 "notes": "run.sh <ID> quick|thorough rebuilds the harness from /repo's working tree, runs 16 pinned worker processes over a fixed seed range derived from VERIF_SEED, writes evidence/<ID>.json (builds two variants of the harness: target/ and target-checked/ = fastrace's debug assertions on; replay files record which one found them); exit 0 held, 1 VIOLATION (replay file under /verif/replays), 2 harness error. Known findings: /verif/known-findings.json.",
}
json.dump(m, open("/verif/MANIFEST.json","w"), indent=1)
print("claimed", sorted(CLAIMED), "na", [x["property_id"] for x in na])
