#!/usr/bin/env python3
"""Regenerates MANIFEST.json from the table below (run after adding/removing a claimed check)."""
import json, subprocess

CLAIMED = {
 "C01": ("7 C01", "Seeded search over generated multi-thread programs (roots, children, multi-parent spans, local scopes, hand-off between threads, thread exit right after a finish) in the default configuration, every interleaving of ring pushes, thread exits and the steps of collector cycles/flush() chosen by the simulator; oracle: exactly-once matching against the reference model, delivery by every flush() that happens-after the finish, delivery within 2 report intervals of quiet simulated time.",
         "rtrb/parking_lot internals trusted (serialised execution, no weak-memory effects); clock and id stubs; the reference model is the specification; permitted omissions are taken from the hook log (ring full) exactly as C09 allows."),
}
NOT_APPLICABLE = {
 "C12": "Pure function of one string / one SpanContext: no thread, clock, I/O, fault or interleaving for a simulator to control; input generation alone would be property-based testing, a different technique family (DESIGN §8).",
 "C19": "Pure conversion of a given record batch to Thrift/msgpack/SpanData; quantifier over inputs only; the reporters have no transport seam and no stated fault behaviour (DESIGN §8).",
 "C20": "The datagram splitter is a deterministic function of the batch; termination and packet bounds are input properties with no schedule, clock or fault dimension (DESIGN §8).",
}
PENDING = "check under construction in this session; not claimed until its oracle exists and is validated (see DESIGN §7)"

props = [json.loads(l)["id"] for l in open("/verif/properties.jsonl")]
hook_commits = subprocess.run(["git","-C","/repo","log","--format=%H %s"],capture_output=True,text=True).stdout.splitlines()
hook_commits = [l.split()[0] for l in hook_commits if l.split(" ",1)[1].startswith("verif:")]

checks = []
for pid in props:
    if pid in CLAIMED:
        ref, text, note = CLAIMED[pid]
        checks.append({
            "property_id": pid,
            "quick_cmd": f"./run.sh {pid} quick",
            "thorough_cmd": f"./run.sh {pid} thorough",
            "evidence_file": f"/verif/evidence/{pid}.json",
            "replay_cmd_template": "./run.sh replay {path}",
            "engine": "dst",
            "level_claimed": {"category": "exploration", "text": text, "design_ref": f"DESIGN.md §{ref}"},
            "level_note": note,
            "technique": "deterministic simulation with fault injection: seeded scheduler over real OS threads (one runs at a time), simulated clock, ring-capacity/thread-exit/stall faults, reference-model oracle over the recorded history, minimised replay files",
        })
na = []
for pid in props:
    if pid in CLAIMED: continue
    na.append({"property_id": pid, "reason": NOT_APPLICABLE.get(pid, PENDING)})

m = {
 "version": 1,
 "setup_cmd": "cd /verif/dst && CARGO_NET_OFFLINE=true cargo build --release --offline",
 "hooks": {
   "guard": "fastrace_verif",
   "enable": "RUSTFLAGS=\"--cfg fastrace_verif\" (set in /verif/dst/.cargo/config.toml; the harness crate has path dependencies on /repo/fastrace and /repo/fastrace-futures)",
   "baseline_off_cmd": "cd /repo && cargo test --workspace --no-fail-fast --offline",
   "source_commits": hook_commits,
   "add_only": True,
 },
 "engines": [{"name": "dst", "path": "/verif/dst", "serves_properties": sorted(CLAIMED), "kind_free_text": "deterministic simulator (own scheduler on real OS threads, simulated time, fault injection), program generator, reference model, oracles, minimiser, multi-process driver"}],
 "checks": checks,
 "not_applicable": na,
 "notes": "run.sh <ID> quick|thorough rebuilds the harness from /repo's working tree, runs 16 pinned worker processes over a fixed seed range derived from VERIF_SEED, writes evidence/<ID>.json; exit 0 held, 1 VIOLATION (replay file under /verif/replays), 2 harness error. Known findings: /verif/known-findings.json.",
}
json.dump(m, open("/verif/MANIFEST.json","w"), indent=1)
print("claimed", sorted(CLAIMED), "na", [x["property_id"] for x in na])
